#!/venv/bin/python
"""usage: tools/wave_table.py W7-   -> markdown table of seeded/<prefix>*/meta.json"""
import glob, json, os, sys

def cut(s, n=230):
    s = " ".join((s or "").split()).replace("|", "/")
    return s if len(s) <= n else s[:n].rsplit(" ", 1)[0] + " ..."

print("| id | change | needs | reported by |")
print("|----|--------|-------|-------------|")
for d in sorted(glob.glob(f"/verif/seeded/{sys.argv[1]}*")):
    m = json.load(open(os.path.join(d, "meta.json")))
    det = ", ".join(m.get("detected_by") or []) or "**not reported**"
    print(f"| {os.path.basename(d)} | {cut(m.get('summary'))} | {cut(m.get('needs'), 160)} | {det} |")
