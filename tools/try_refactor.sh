#!/bin/bash
# usage: tools/try_refactor.sh <dir with patch.diff> [PROPS...]  (default: all 20)
# A behaviour-preserving change: every quick check must stay silent (exit 0).
set -u
MUT=$(realpath "$1"); shift
PROPS=${@:-C01 C02 C03 C04 C05 C06 C07 C08 C09 C10 C11 C12 C13 C14 C15 C16 C17 C18 C19 C20}
WT=$(mktemp -d /tmp/jslmc-ref-XXXXXX); rmdir "$WT"
git -C /repo worktree add -q "$WT" HEAD || exit 2
EV=$(mktemp -d /tmp/jslmc-ev-XXXXXX)
cleanup() { git -C /repo worktree remove --force "$WT" 2>/dev/null; rm -rf "$WT" "$EV"; }
trap cleanup EXIT
cd "$WT"
git apply "$MUT/patch.diff" || { echo "PATCH DOES NOT APPLY"; exit 2; }
echo "tests with change: $(PYTHONPATH="$WT" /venv/bin/python -m pytest -q -p no:cacheprovider 2>&1 | grep -E 'passed|failed|error' | tail -1)"
cd /verif
for P in $PROPS; do
  OUT=$(JSLMC_REPO="$WT" PYTHONPATH="$WT" JSLMC_EVIDENCE_DIR="$EV" JSLMC_REPLAY_DIR="$EV/replays" /venv/bin/python -m jslmc.run --property "$P" --tier quick 2>&1); RC=$?
  if [ $RC -ne 0 ]; then
    echo "ALARM $P exit $RC"; echo "$OUT" | grep -A2 '^VIOLATION\|^INTERNAL' | cut -c1-400 | head -12
  else echo "silent $P"; fi
done
