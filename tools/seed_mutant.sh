#!/bin/bash
# usage: tools/seed_mutant.sh <src dir> <seeded name> <PROP> [<PROP>...]
# Verifies a candidate change (tests pass, demo fails with / passes without) in a
# scratch worktree, runs the named quick checks against it and stores it under
# /verif/seeded/<name>/ with what was run and what each check reported.
set -u
SRC=$(realpath "$1"); NAME=$2; shift 2
DST=/verif/seeded/$NAME
mkdir -p "$DST"
cp "$SRC/patch.diff" "$DST/patch.diff"
[ -f "$SRC/demo.py" ] && cp "$SRC/demo.py" "$DST/demo.py"
OUT=$(LINES_SHOWN=2 /verif/tools/try_mutant.sh "$SRC" "$@" 2>&1)
echo "$OUT" > "$DST/run.log"
/venv/bin/python - "$SRC" "$DST" "$@" <<'PY'
import json, sys, re, os
src, dst, props = sys.argv[1], sys.argv[2], sys.argv[3:]
log = open(os.path.join(dst, "run.log")).read()
meta = {}
try:
    meta = json.load(open(os.path.join(src, "meta.json")))
except Exception:
    pass
det = {}
for m in re.finditer(r"check (C\d+): exit (\d+)\s+(\d+) violation", log):
    det[m.group(1)] = {"exit": int(m.group(2)), "violation_lines": int(m.group(3))}
out = {
    "breaks_property": meta.get("property", props[0] if props else None),
    "summary": meta.get("summary"),
    "needs_to_manifest": meta.get("needs"),
    "files": meta.get("files"),
    "origin": "independent sub-agent given only the property text and a scratch worktree" if meta else "written by hand",
    "verified": {
        "tests_with_change": (re.search(r"tests with change: (.*)", log) or [None, None])[1],
        "demo_without_change": (re.search(r"demo without change: (.*)", log) or [None, None])[1],
        "demo_with_change": (re.search(r"demo with change: (.*)", log) or [None, None])[1],
        "command": "tools/try_mutant.sh (scratch worktree of /repo HEAD, patch applied, pytest, demo, quick checks with JSLMC_REPO pointing at the worktree)",
    },
    "quick_checks_run": det,
    "detected_by": sorted(k for k, v in det.items() if v["exit"] == 1),
}
json.dump(out, open(os.path.join(dst, "meta.json"), "w"), indent=1)
print(os.path.basename(dst), "detected_by", out["detected_by"], "| tests:", out["verified"]["tests_with_change"], "| demo:", out["verified"]["demo_without_change"], "->", out["verified"]["demo_with_change"])
PY
