#!/bin/bash
# usage: tools/run_all.sh quick|thorough [props...]  - runs checks sequentially, prints summary lines
TIER=${1:-quick}; shift
PROPS=${@:-C01 C02 C03 C04 C05 C06 C07 C08 C09 C10 C11 C12 C13 C14 C15 C16 C17 C18 C19 C20}
cd /verif
for P in $PROPS; do
  S=$(date +%s)
  OUT=$(/venv/bin/python -m jslmc.run --property $P --tier $TIER 2>&1); RC=$?
  echo "$P rc=$RC $(( $(date +%s) - S ))s $(echo "$OUT" | tail -1)"
  echo "$OUT" | grep -E "^VIOLATION|^KNOWN|^INTERNAL|Traceback" | head -5
done
