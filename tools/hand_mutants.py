#!/venv/bin/python
"""Hand-written property-breaking changes (DESIGN section 6 list).

Each entry is a textual replacement in one or two files.  For every entry the
script writes /tmp/handmut/<name>/patch.diff + meta.json (from a scratch
worktree of /repo HEAD, never /repo itself); tools/seed_mutant.sh then verifies
it (tests pass?) and runs the named checks.  Usage:
    tools/hand_mutants.py            # generate all patches
"""

import json
import os
import subprocess
import sys
import tempfile

M = []


def mut(name, prop, checks, edits, summary, needs):
    M.append(dict(name=name, prop=prop, checks=checks, edits=edits, summary=summary, needs=needs))


D = "job_shop_lib/dispatching/_dispatcher.py"
F_ = "job_shop_lib/dispatching/_ready_operation_filters.py"
FA = "job_shop_lib/dispatching/_factories.py"
RW = "job_shop_lib/reinforcement_learning/_reward_observers.py"
ENV = "job_shop_lib/reinforcement_learning/_single_job_shop_graph_env.py"
GD = "job_shop_lib/graphs/_build_disjunctive_graph.py"
GA = "job_shop_lib/graphs/_build_agent_task_graph.py"
JG = "job_shop_lib/graphs/_job_shop_graph.py"
SC = "job_shop_lib/_schedule.py"
JI = "job_shop_lib/_job_shop_instance.py"
IG = "job_shop_lib/generation/_instance_generator.py"
GG = "job_shop_lib/generation/_general_instance_generator.py"
PG = "job_shop_lib/visualization/_plot_gantt_chart.py"
OR = "job_shop_lib/constraint_programming/_ortools_solver.py"
RU = "job_shop_lib/graphs/graph_updaters/_residual_graph_updater.py"
RF = "job_shop_lib/dispatching/rules/_dispatching_rules_functions.py"
PO = "job_shop_lib/dispatching/feature_observers/_position_in_job_observer.py"
ISC = "job_shop_lib/dispatching/feature_observers/_is_scheduled_observer.py"
DU = "job_shop_lib/dispatching/feature_observers/_duration_observer.py"
CO = "job_shop_lib/dispatching/feature_observers/_composite_feature_observer.py"
UT = "job_shop_lib/reinforcement_learning/_utils.py"
ME = "job_shop_lib/reinforcement_learning/_multi_job_shop_graph_env.py"

mut("H01-reset-keeps-cache", "C05", ["C05", "C12"], [(D, "        self._job_next_available_time = [0] * self.instance.num_jobs\n        self._cache = {}\n        for subscriber in self.subscribers:\n            subscriber.reset()", "        self._job_next_available_time = [0] * self.instance.num_jobs\n        for subscriber in self.subscribers:\n            subscriber.reset()")],
    "Dispatcher.reset() no longer clears the query memo", "a query asked before reset() in a state reached by >= 1 dispatch, asked again after reset")
mut("H02-is-completed-strict", "C05", ["C05", "C06", "C17"], [(D, "                is_completed = scheduled_operation.end_time <= current_time\n                if is_completed:\n                    break\n                ongoing_operations.append(scheduled_operation)", "                is_completed = scheduled_operation.end_time < current_time\n                if is_completed:\n                    break\n                ongoing_operations.append(scheduled_operation)")],
    "ongoing_operations treats end == now as still ongoing", "an operation ending exactly at the current time")
mut("H03-nonimmediate-uses-current-time", "C07", ["C07"], [(F_, "    min_start_time = dispatcher.min_start_time(operations)\n    immediate_operations", "    min_start_time = dispatcher.current_time()\n    immediate_operations")],
    "filter_non_immediate_operations compares with dispatcher.current_time() instead of the sub-list minimum", "filter applied to a sub-list whose earliest start is later than the current time; also recursion when installed on the dispatcher")
mut("H04-dominated-strict", "C07", ["C07", "C08"], [(F_, "            is_dominated = start_time >= min_machine_end_times[machine_id]", "            is_dominated = start_time > min_machine_end_times[machine_id]")],
    "dominated filter uses > instead of >=", "operation starting exactly when another one could end on the machine")
mut("H05-composite-last-only", "C07", ["C07"], [(FA, "        pruned_operations = operations\n        for pruning_function in filter_functions:\n            pruned_operations = pruning_function(dispatcher, pruned_operations)", "        pruned_operations = operations\n        for pruning_function in filter_functions:\n            pruned_operations = pruning_function(dispatcher, operations)")],
    "composite filter applies every filter to the original list (only the last one counts)", "composition of >= 2 filters whose first filter removes something the last keeps")
mut("H06-idle-reward-last", "C13", ["C13"], [(RW, "        machine_schedule = self.dispatcher.schedule.schedule[machine_id][:-1]\n\n        if machine_schedule:\n            last_operation = machine_schedule[-1]", "        machine_schedule = self.dispatcher.schedule.schedule[machine_id]\n\n        if len(machine_schedule) > 1:\n            last_operation = machine_schedule[-1]")],
    "IdleTimeReward reads [-1] (the operation itself) instead of its predecessor", "second operation on a machine after a gap")
mut("H07-makespan-reward-no-reset", "C13", ["C13", "C12"], [(RW, "    def reset(self) -> None:\n        super().reset()\n        self.current_makespan = self.dispatcher.schedule.makespan()", "    def reset(self) -> None:\n        super().reset()")],
    "MakespanReward.reset() keeps current_makespan", "second episode")
mut("H08-disjunctive-one-direction", "C16", ["C16"], [(GD, "            graph.add_edge(\n                node2,\n                node1,\n                type=EdgeType.DISJUNCTIVE,\n            )", "            pass")],
    "disjunctive edges added in one direction only", "any two operations sharing a machine")
mut("H09-source-edges-every-op", "C16", ["C16"], [(GD, "    for job_operations in graph.nodes_by_job:\n        graph.add_edge(source, job_operations[0], type=EdgeType.CONJUNCTIVE)", "    for job_operations in graph.nodes_by_job:\n        for node in job_operations[:2]:\n            graph.add_edge(source, node, type=EdgeType.CONJUNCTIVE)")],
    "source connected to the first two operations of each job", "job with >= 2 operations")
mut("H10-remove-node-no-isolates", "C17", ["C17", "C18"], [(JG, "        isolated_nodes = list(nx.isolates(self.graph))\n        for isolated_node in isolated_nodes:\n            self.removed_nodes[isolated_node] = True\n\n        self.graph.remove_nodes_from(isolated_nodes)", "        isolated_nodes = list(nx.isolates(self.graph))\n        self.graph.remove_nodes_from(isolated_nodes)")],
    "remove_node drops isolated nodes from the nx graph without marking them removed", "a node that becomes isolated")
mut("H11-from-job-sequences-no-progress-flag", "C14", ["C14"], [(SC, "                    job_ids.popleft()\n                    at_least_one_operation_scheduled = True", "                    job_ids.popleft()\n                at_least_one_operation_scheduled = True")],
    "from_job_sequences sets the progress flag whenever a machine still has jobs queued: cyclic sequences hang", "cyclic job sequences")
mut("H12-next-increments-after-generate", "C19", ["C19"], [(IG, "        self._current_iteration += 1\n        return self.generate()", "        instance = self.generate()\n        if self._current_iteration < (self._iteration_limit or 0) - 1:\n            self._current_iteration += 1\n        return instance")],
    "iteration counter stops one short: iteration never ends", "iteration_limit >= 1")
mut("H13-seed-if-truthy", "C19", ["C19"], [(IG, "        if seed is not None:\n            random.seed(seed)", "        if seed:\n            random.seed(seed)"), (GG, "        if seed is not None:\n            random.seed(seed)", "        if seed:\n            random.seed(seed)")],
    "seeding only `if seed:`: seed 0 is ignored", "seed == 0")
mut("H14-gantt-width-is-end", "C20", ["C20"], [(PG, "        [(start_time, duration)],", "        [(start_time, end_time)],")],
    "bar width = end time instead of duration", "operation not starting at 0")
mut("H15-xlim-from-count", "C20", ["C20"], [(PG, "    makespan = schedule.makespan()\n    xlim = xlim if xlim is not None else makespan", "    makespan = max(\n        (ops[-1].end_time for ops in schedule.schedule if ops), default=0\n    ) if schedule.is_complete() else schedule.num_scheduled_operations\n    xlim = xlim if xlim is not None else makespan")],
    "axis limit taken from the number of scheduled operations for partial schedules", "partial schedule")
mut("H16-cpsat-precedence-adjacent-machine", "C03", ["C03"], [(OR, "        for job in instance.jobs:\n            for position in range(1, len(job)):\n                self.model.Add(", "        for job in instance.jobs:\n            for position in range(1, len(job)):\n                if job[position - 1].machine_id == job[position].machine_id:\n                    continue\n                self.model.Add(")],
    "job precedence omitted between consecutive operations on the same machine (no-overlap 'covers' it)", "recirculation: consecutive operations of a job on one machine, order can flip")
mut("H17-cpsat-horizon", "C03", ["C03"], [(OR, "                start_var = self.model.NewIntVar(\n                    0, instance.total_duration, f\"start_{operation}\"\n                )", "                start_var = self.model.NewIntVar(\n                    0,\n                    int(instance.max_duration) * instance.num_jobs,\n                    f\"start_{operation}\",\n                )")],
    "start variables bounded by max_duration * num_jobs", "a single long job: optimum needs later starts")
mut("H18-env-step-dispatch-machine-first", "C09", ["C09", "C18"], [(ENV, "        if machine_id == -1:\n            machine_id = operation.machine_id", "        if machine_id < 0:\n            machine_id = operation.machines[0]")],
    "env.step maps every negative machine id (and -1 on flexible ops) to the first machine", "env step with machine -2 or -1 for a multi-machine op")
mut("H19-mor-counts-scheduled", "C04", ["C04"], [(RF, "    job_remaining_operations = [0] * dispatcher.instance.num_jobs\n    for operation in dispatcher.uncompleted_operations():\n        job_remaining_operations[operation.job_id] += 1", "    job_remaining_operations = [0] * dispatcher.instance.num_jobs\n    for operation in dispatcher.scheduled_operations():\n        job_remaining_operations[operation.job_id] -= 1")],
    "most-operations-remaining ranks by fewest scheduled operations", "jobs of unequal length")
mut("H20-position-observer-off-by-one", "C11", ["C11"], [(PO, "            job[scheduled_operation.position_in_job + 1 :]\n        ):", "            job[scheduled_operation.position_in_job + 2 :], start=1\n        ):")],
    "PositionInJobObserver does not update the immediate successor", "job with >= 2 operations")
mut("H21-duration-job-update-uses-remaining", "C11", ["C11"], [(DU, "        operation_duration = scheduled_operation.operation.duration\n        job_id = scheduled_operation.job_id", "        operation_duration = self.dispatcher.remaining_duration(\n            scheduled_operation\n        )\n        job_id = scheduled_operation.job_id")],
    "job duration decremented by the remaining duration instead of the duration", "operation dispatched to start before the current time")
mut("H22-add-padding-front", "C18", ["C18"], [(UT, "    slices = tuple(slice(0, dim) for dim in array.shape)", "    slices = tuple(\n        slice(out - dim, out) for dim, out in zip(array.shape, output_shape)\n    )")],
    "add_padding puts the padding at the front", "graph with fewer edges than declared")
mut("H23-multi-env-drops-filter", "C18", ["C18"], [(ME, "            ready_operations_filter=self.ready_operations_filter,\n            render_mode=self.render_mode,\n            render_config=self.render_config,\n            use_padding=self.single_job_shop_graph_env.use_padding,", "            render_mode=self.render_mode,\n            render_config=self.render_config,\n            use_padding=self.single_job_shop_graph_env.use_padding,")],
    "multi env reset drops the configured ready operations filter (falls back to the default)", "non-default filter")
mut("H24-to-dict-name-missing-metadata", "C14", ["C14"], [(JI, "        metadata = {} if metadata is None else metadata\n        return cls(jobs=jobs, name=name, **metadata)", "        return cls(jobs=jobs, name=name)")],
    "from_matrices ignores metadata", "instance with metadata")
mut("H25-machine-loads-first-machine", "C14", ["C14"], [(JI, "        machine_times = [0] * self.num_machines\n        for job in self.jobs:\n            for operation in job:\n                for machine_id in operation.machines:\n                    machine_times[machine_id] += operation.duration", "        machine_times = [0] * self.num_machines\n        for job in self.jobs:\n            for operation in job:\n                machine_times[operation.machines[0]] += operation.duration")],
    "machine_loads only counts the first eligible machine", "flexible instance")
mut("H26-updater-unsubscribed-iscompleted-order", "C17", ["C17"], [(RU, "        remove_completed_operations(\n            self.job_shop_graph,\n            completed_operations=self.dispatcher.completed_operations(),\n        )", "        remove_completed_operations(\n            self.job_shop_graph,\n            completed_operations=self.dispatcher.scheduled_operations(),\n        )")],
    "residual updater removes every scheduled operation (also ongoing ones - allowed) - control: should NOT be reported for C17", "control")
mut("H27-schedule-eq-ignores-machine", "C15", ["C15"], [("job_shop_lib/_scheduled_operation.py", "            and self.start_time == value.start_time\n            and self.machine_id == value.machine_id", "            and self.start_time == value.start_time")],
    "ScheduledOperation.__eq__ ignores the machine", "flexible operation scheduled on different machines at the same time")
mut("H28-notify-before-tracking", "C10", ["C10", "C11"], [(D, "        self._machine_next_available_time[machine_id] = end_time\n        self._job_next_operation_index[job_id] += 1\n        self._job_next_available_time[job_id] = end_time\n        self._cache = {}\n\n        # Notify subscribers\n        for subscriber in self.subscribers:\n            subscriber.update(scheduled_operation)", "        self._machine_next_available_time[machine_id] = end_time\n        self._job_next_available_time[job_id] = end_time\n        self._cache = {}\n\n        # Notify subscribers\n        for subscriber in self.subscribers:\n            subscriber.update(scheduled_operation)\n        self._job_next_operation_index[job_id] += 1\n        self._cache = {}")],
    "subscribers notified before the job's next-operation index advances", "any observer reading the dispatcher inside update")


def main():
    out = "/tmp/handmut"
    os.makedirs(out, exist_ok=True)
    wt = tempfile.mkdtemp(prefix="jslmc-hand-")
    os.rmdir(wt)
    subprocess.check_call(["git", "-C", "/repo", "worktree", "add", "-q", wt, "HEAD"])
    try:
        for m in M:
            subprocess.check_call(["git", "-C", wt, "checkout", "-q", "--", "."])
            ok = True
            for path, old, new in m["edits"]:
                p = os.path.join(wt, path)
                s = open(p).read()
                if s.count(old) != 1:
                    print(m["name"], "EDIT DOES NOT MATCH in", path, s.count(old))
                    ok = False
                    break
                open(p, "w").write(s.replace(old, new))
            if not ok:
                continue
            d = os.path.join(out, m["name"])
            os.makedirs(d, exist_ok=True)
            diff = subprocess.check_output(["git", "-C", wt, "diff"]).decode()
            open(os.path.join(d, "patch.diff"), "w").write(diff)
            json.dump({"property": m["prop"], "summary": m["summary"], "needs": m["needs"], "files": [e[0] for e in m["edits"]], "checks": m["checks"]}, open(os.path.join(d, "meta.json"), "w"), indent=1)
            print(m["name"], "ok")
    finally:
        subprocess.call(["git", "-C", "/repo", "worktree", "remove", "--force", wt])


if __name__ == "__main__":
    main()
