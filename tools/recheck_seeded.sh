#!/bin/bash
# Re-runs, for every seeded change, the quick checks that are recorded as
# detecting it (in a scratch worktree) and reports any that fell silent.
cd /verif
for D in seeded/*/; do
  N=$(basename $D)
  [ -n "${ONLY:-}" ] && [[ "$N" != $ONLY* ]] && continue
  PROPS=$(/venv/bin/python -c "import json;print(' '.join(json.load(open('$D/meta.json'))['detected_by']))")
  OUT=$(LINES_SHOWN=0 tools/try_mutant.sh $D $PROPS 2>&1 | grep "^check")
  MISS=$(echo "$OUT" | grep -v "exit 1" | tr '\n' ';')
  if [ -n "$MISS" ]; then echo "$N: NO LONGER DETECTED BY: $MISS"; else echo "$N: ok ($PROPS)"; fi
done
