#!/venv/bin/python
"""Regenerates /verif/MANIFEST.json from the table below and validates it."""

import json
import os
import sys

HERE = os.path.dirname(os.path.dirname(os.path.abspath(__file__)))
sys.path.insert(0, HERE)

PY = "/venv/bin/python"

# property -> (technique, level text, level_note, design_ref)
CLAIMED = {}


def claim(pid, technique, text, note):
    CLAIMED[pid] = dict(technique=technique, text=text, note=note)


claim(
    "C01",
    "stateless exhaustive DFS over all dispatch histories on the real Dispatcher (bounded small-scope families) + independent feasibility oracle; TLC state graph replayed edge-by-edge (thorough)",
    "Every dispatch history of every instance of the small-scope families (all instances with <= 4 operations on 2 machines, flexible, durations {0,1,2}; 3-machine and larger fixed probes) is executed on the real Dispatcher under each filter configuration and checked after every step. Complete enumeration within the bounds, no sampling.",
    "Bounded: <= 4 operations exhaustively (+ fixed probes up to 10 operations); reference model and feasibility checker in jslmc/refmodel.py are trusted.",
)

claim(
    "C02",
    "stateless exhaustive DFS over all dispatch histories on the real Dispatcher; per-step oracle = forced start rule + tracking derived from schedule content; every recorded history re-dispatched on fresh / reset dispatchers and through the real frame-replay loop; revisit differential per canonical state",
    "All histories of all instances of the small-scope families, every prefix: start time, tracking vectors, count and makespan are compared with values derived from the schedule; the HistoryObserver record of every prefix is replayed three ways and must reproduce the schedule. Complete enumeration within the bounds.",
    "Bounded to <= 4 operations exhaustively plus fixed probes; create_gantt_chart_frames is driven with a stub Figure.",
)
claim(
    "C05",
    "explicit-state exploration of every reachable dispatcher state x bounded query sequences (all ordered pairs / triples, forward+reverse passes, pre-transition queries across every dispatch and reset edge) on the real Dispatcher against a reference recomputation",
    "In every reachable state of every small-scope instance every query is compared with an independent recomputation, after every ordered pair of earlier queries (triples of the memoised queries in thorough) and across every transition; this is exactly the order-dependence the property quantifies over, enumerated completely up to sequence length 2-3.",
    "Query sequences longer than 3 per state are not explored; set-valued queries compared as sets.",
)
claim(
    "C06",
    "stateless exhaustive DFS over all histories x filter compositions on the real Dispatcher; edge invariant (monotone clock, growing completed set) + lock-step unfiltered twin",
    "Every edge of every history of the families is checked for a non-decreasing current time and a growing completed set; with every ordered composition of built-in filters (positive durations) an unfiltered twin is driven in lock-step and must agree on the current time in every state.",
    "Bounded to the listed families; filters only with positive durations as the property states.",
)
claim(
    "C07",
    "explicit-state enumeration: every distinct reachable state x every non-empty sub-list of ready operations x every filter composition and construction route, real filter functions vs reference criteria; plus exhaustive walk of each filtered history tree for deadlock-freedom",
    "Complete enumeration of (state, sub-list, composition) triples over the small-scope families, plus every node of every filtered dispatch tree; the oracle is the documented criterion composed left to right.",
    "Dominated-operations criterion not asserted on inputs containing zero-duration operations (only sub-list + non-empty), as the property leaves the shortcut open.",
)
claim(
    "C08",
    "two exhaustive memoised state-graph searches per instance on the real Dispatcher (full vs dominated-pruned successor relation), minima compared with each other and with a library-free reference optimum",
    "For every positive-duration instance of the families the complete full and pruned state graphs are explored; equality of the minima is the property itself, decided instance by instance without sampling.",
    "Bounded to <= 6 operations / 3 machines / durations <= 3; relies on semi-active schedules containing an optimum.",
)

claim(
    "C09",
    "fault enumeration: every invalid request of a finite alphabet injected at every node of every dispatch-history tree (1 fault; thorough: all ordered pairs) on the real Dispatcher with all built-in observers and on the real Gym environment; differential oracle against a fault-free rebuild",
    "Exhaustive over (history prefix, fault) for the small-scope families: exception raised, complete snapshot (tracking, schedule, every query, every observer, graph, env observation) unchanged, continuation identical to the fault-free run.",
    "Bounded to <= 2 consecutive faults and the listed families; any exception type counts as a rejection.",
)
claim(
    "C10",
    "explicit-state BFS of a subscription-protocol model (dispatch/fault/reset/subscribe/unsubscribe/resubscribe/second singleton/create_or_get events); every model transition executed on the real Dispatcher after replaying the state's representative trace; recorder observers log sequence numbers and in-update snapshots",
    "All reachable protocol states up to the BFS depth bound for 3-4 tiny instances and <= 3 recorder objects; every transition's notifications (who, order, once, post-state) are compared with the model.",
    "Depth-bounded (states first reached at the bound are not expanded; count reported); double subscription of one object through bare subscribe() is outside the alphabet.",
)
claim(
    "C13",
    "stateless exhaustive DFS over all dispatch histories (every machine choice) with both reward observers attached; telescoping-sum oracle from the reference model; same histories as action sequences of the real SingleJobShopGraphEnv",
    "Every prefix of every history of the families: one reward per dispatch, non-positive, running sums equal minus makespan / idle time of the reference; env.step returns exactly the appended reward.",
    "Bounded to the listed families.",
)

claim(
    "C11",
    "stateless exhaustive DFS over all dispatch histories with the feature observers subscribed from the start (all / per feature type / alone; with filters on positive instances); per-step oracle = from-scratch reference definitions on entities with work left; exhaustive constructibility sweep over instances x observer types x feature-type subsets",
    "Every prefix of every history of the families: every feature of every entity that still has work left equals the reference recomputation; composite equals concatenation of its parts; every observer type x feature subset constructs on every instance of the families.",
    "Bounded to the listed families; readings the documentation leaves open (IsCompleted job/machine flag between scheduled and completed, stale duration of ongoing operations) are accepted as pinned by the repository's golden test.",
)
claim(
    "C12",
    "bounded exhaustive event sequences h1.reset.h2 (every prefix h1, complete histories h2, double resets, chained episodes) x all creation orders of the inter-dependent observers, on the real Dispatcher/observers and on real SingleJobShopGraphEnv objects; differential oracle against freshly constructed objects",
    "Every reset point of every history of the small-scope families, every creation order (28) of the dependent observers spread over the instances, complete snapshots after reset and along the next episode compared with fresh objects; env level: reset.a*.reset.a* for 4 builders x 2 rewards.",
    "Quadratic space: quick replays a rotating window of complete histories after each reset point (all reset points are covered); thorough widens the window; bounded to <= 4 operations.",
)

claim(
    "C03",
    "exhaustive small-scope enumeration: every tiny non-flexible instance solved by the real ORToolsSolver against an optimum from exhaustive history search; the public CP-SAT model proto evaluated on ALL start vectors of its domains vs brute-force feasibility; EVERY optimal assignment pushed through the real solve() via a stub CpSolver; all ordered pairs/triples of solve calls on one object",
    "Decides feasibility, true optimality, model == problem, reconstruction under every admissible solver answer and history independence on the complete families of instances with <= 4 operations (durations 0..2, 2 machines).",
    "CP-SAT's own search is trusted only as cross-checked; benchmark instances (thorough) are a fixed list; CP-SAT is pinned to 1 worker / fixed seed by the harness.",
)
claim(
    "C04",
    "stateless exhaustive DFS over every filtered dispatch tree evaluating every rule / score rule / tie-breaker pair in every state; E2 enumeration of every answer of the random source and of the clock; solver runs to completion for every rule x chooser x filter",
    "Every state of every filtered tree of the small-scope families: selection available and best under the documented key; direct == observer-based MWKR in every state; solver terminates, complete, feasible for every random answer; elapsed_time arithmetic for every enumerated clock increment.",
    "random_score explored with deviation bound 1; candidate set is the implementation's available_operations() (C07 decides its correctness).",
)
claim(
    "C14",
    "complete small-scope enumeration of instances (views, round trips through dict/JSON/Taillard text), of all complete dispatch histories (schedule round trips) and of ALL per-machine permutation tuples (accepted <=> acyclic, under an alarm); content fingerprints around every component for immutability",
    "Views vs definitions and round trips on every instance of the families; from_job_sequences/from_dict on every dispatcher-built schedule; every permutation tuple of every non-flexible instance with <= 4 operations classified against an own acyclicity check.",
    "Bounded to the listed families; Taillard files are written by the harness.",
)
claim(
    "C15",
    "complete enumeration of all ordered pairs (and triples of sub-universes) of bounded universes of real operations / scheduled operations / schedules / instances, each element built twice independently",
    "Equivalence laws, content-equality in both directions, hash consistency and foreign-type comparisons over every ordered pair of universes of several hundred to thousands of objects.",
    "Bounded universes; pairs the statement does not classify are only checked for symmetry / hash consistency.",
)
claim(
    "C16",
    "complete small-scope enumeration of instances x 4 builders against reference node/edge sets; all complete histories x all {0,1}^n delay vectors for the solved graph with an own longest-path DP",
    "Exact typed node and edge sets on every instance of the families; acyclicity and longest path == makespan for every dispatcher-built schedule, <= makespan for every delayed variant.",
    "Bounded to the listed families.",
)
claim(
    "C17",
    "stateless exhaustive DFS over all dispatch histories x 4 builders x 4 option pairs x 2 filters with the real ResidualGraphUpdater, first and second episode; removal invariants vs reference completed/scheduled sets",
    "Every prefix of every history of the positive-duration families under every configuration: completed subset removed subset scheduled, machine/job removal only when all scheduled, monotone, mask == graph, no dangling edge, complete => all removed.",
    "Bounded to the listed positive-duration families.",
)
claim(
    "C18",
    "bounded exhaustive action sequences (two episodes) on real SingleJobShopGraphEnv objects over instances x configurations; E2: every instance the generator can emit as an episode of the real MultiJobShopGraphEnv for several constructor-time draws",
    "Observation-space membership (gymnasium + own check), mask/edges == graph, padding placement, done/truncated, every legal action in the action space, configuration preserved across every reset, instances within generator ranges.",
    "Bounded families / generator ranges; one known finding (spaces sized from one sampled instance) is listed in known_findings.json and reported as KNOWN-FINDING.",
)
claim(
    "C19",
    "E2: exhaustive enumeration of EVERY answer sequence of the random module for each setting of a generator-parameter grid (every instance the generator can emit), shape predicates per outcome + coverage of all machines over the outcome set; seed/iteration clauses over a finite seed list",
    "All outcomes of GeneralInstanceGenerator.generate() for 400+ parameter settings with small ranges; same-seed equality, unique names and iteration_limit on a seed x setting grid; generate() with both, one or none of the sizes given explicitly.",
    "Small ranges (<= 3 jobs x 3 machines); seed clause uses the real RNG on a finite list.",
)
claim(
    "C20",
    "exhaustive small-scope enumeration of schedules through the real plot_gantt_chart (artist inspection); all histories through the real frame-replay loop and GanttChartCreator; EVERY n in 1..N through the real file-naming / directory-listing / sorted-loading pipeline with stub figure and recording codec; real GIF encode/decode for small n",
    "Bars/legend/axis vs schedule for every distinct schedule of the family; k-th frame == first k dispatches for every history; frame order for every history length up to N (130 quick, 1100 thorough) plus 998..1002 (quick) / 9999..10001 (thorough), crossing 100, 1000 and 10000; charts also through one re-used partial plotter and GanttChartCreator.plot_gantt_chart.",
    "Frame order decided for n <= N only; pixels not compared except the gray level encoding the frame id.",
)

PENDING = {
    f"C{n:02d}": "check not built yet in this revision (planned: bounded exhaustive exploration, see DESIGN.md)"
    for n in range(1, 21)
}


def build():
    checks = []
    for pid in sorted(CLAIMED):
        c = CLAIMED[pid]
        checks.append(
            {
                "property_id": pid,
                "quick_cmd": f"{PY} -m jslmc.run --property {pid} --tier quick",
                "thorough_cmd": f"{PY} -m jslmc.run --property {pid} --tier thorough",
                "evidence_file": f"/verif/evidence/{pid}.json",
                "replay_cmd_template": f"{PY} -m jslmc.replay {{path}}",
                "engine": "jslmc",
                "level_claimed": {
                    "category": "model_checking",
                    "text": c["text"],
                    "design_ref": f"DESIGN.md section 3/{pid}",
                },
                "level_note": c["note"],
                "technique": c["technique"],
            }
        )
    na = [
        {"property_id": pid, "reason": reason}
        for pid, reason in sorted(PENDING.items())
        if pid not in CLAIMED
    ]
    manifest = {
        "version": 1,
        "setup_cmd": f"{PY} -m jslmc.selftest",
        "hooks": {
            "guard": "PABLOO22_JOB_SHOP_LIB_VERIF",
            "enable": "no source hooks: the harness replaces module-level names (random, time, imageio.imread) of the imported library from outside; the library is imported editable from /repo's working tree",
            "baseline_off_cmd": "cd /repo && /venv/bin/python -m pytest -ra -q -p no:cacheprovider --timeout=900 --continue-on-collection-errors",
            "source_commits": [],
            "add_only": True,
        },
        "engines": [
            {
                "name": "jslmc",
                "path": "/verif/jslmc",
                "serves_properties": sorted(CLAIMED),
                "kind_free_text": "hand-written explicit-state / stateless explorer for Python: E1 all dispatch histories on real objects, E2 all environment answers (random, clock), E3 bounded event sequences, E4 complete small-scope input families, E5 TLC model whose every edge is replayed on the implementation",
            }
        ],
        "checks": checks,
        "notes": "All checks: cwd=/verif, exit 0 held / 1 violation / 2 internal harness error. VERIF_SEED only selects which extra slice of the 4-operation family the quick tier adds; verdicts on the unchanged tree do not depend on it.",
        "not_applicable": na,
    }
    return manifest


def main():
    m = build()
    path = os.path.join(HERE, "MANIFEST.json")
    with open(path, "w") as f:
        json.dump(m, f, indent=1)
        f.write("\n")
    try:
        import jsonschema

        schema = json.load(open("/root/.vp/MANIFEST.schema.json"))
        jsonschema.validate(m, schema)
        print("MANIFEST.json valid;", len(m["checks"]), "checks;", len(m["not_applicable"]), "not_applicable")
    except ImportError:
        print("jsonschema missing: not validated")


if __name__ == "__main__":
    main()
