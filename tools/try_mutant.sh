#!/bin/bash
# usage: tools/try_mutant.sh <mutant-dir with patch.diff [demo.py]> <PROP> [<PROP>...]
# Applies the patch to a fresh scratch worktree of /repo HEAD (never to /repo),
# runs the repository's test suite, the demonstration with/without the change,
# and the quick checks of the given properties against the scratch tree.
set -u
MUT=$(realpath "$1"); shift
WT=$(mktemp -d /tmp/jslmc-mut-XXXXXX)
rmdir "$WT"
git -C /repo worktree add -q "$WT" HEAD || exit 2
cleanup() { git -C /repo worktree remove --force "$WT" 2>/dev/null; rm -rf "$WT" "$EV"; }
EV=$(mktemp -d /tmp/jslmc-ev-XXXXXX)
trap cleanup EXIT
cd "$WT"
if [ -f "$MUT/demo.py" ]; then
  PYTHONPATH="$WT" /venv/bin/python "$MUT/demo.py" >/dev/null 2>&1; echo "demo without change: exit $?"
fi
git apply "$MUT/patch.diff" || { echo "PATCH DOES NOT APPLY"; exit 2; }
echo "tests with change: $(PYTHONPATH="$WT" timeout 300 /venv/bin/python -m pytest -q -p no:cacheprovider -x 2>&1 | grep -E 'passed|failed|error' | tail -1)"
if [ -f "$MUT/demo.py" ]; then
  PYTHONPATH="$WT" /venv/bin/python "$MUT/demo.py" >/dev/null 2>&1; echo "demo with change: exit $?"
fi
cd /verif
for P in "$@"; do
  OUT=$(JSLMC_REPO="$WT" PYTHONPATH="$WT" JSLMC_EVIDENCE_DIR="$EV" JSLMC_REPLAY_DIR="$EV/replays" /venv/bin/python -m jslmc.run --property "$P" --tier "${TIER:-quick}" 2>&1)
  RC=$?
  echo "check $P: exit $RC  $(echo "$OUT" | grep -c '^VIOLATION') violation line(s)"
  echo "$OUT" | grep -A2 '^VIOLATION' | grep -v '^VIOLATION' | cut -c1-260 | head -${LINES_SHOWN:-6}
done
