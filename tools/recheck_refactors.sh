#!/bin/bash
# Every behaviour-preserving refactoring under /verif/refactors must leave all
# quick checks silent.  usage: tools/recheck_refactors.sh [name-prefix]
cd /verif
for D in refactors/*/; do
  N=$(basename $D)
  [ -n "${1:-}" ] && [[ "$N" != $1* ]] && continue
  echo "=== $N"; tools/try_refactor.sh $D | grep -v "^silent"
done
