"""Instance families = the input alphabet of every exploration (DESIGN 2.3).

An *instance spec* is a plain nested tuple that shares nothing with the
library::

    spec  = (job, job, ...)
    job   = (op, op, ...)
    op    = (machines, duration)      machines = tuple of machine ids

All families are enumerated completely and deterministically, simplest first.
"""

from __future__ import annotations

import itertools
from typing import Iterable, Iterator

Spec = tuple

# ---------------------------------------------------------------------------
# building blocks
# ---------------------------------------------------------------------------

MS_NF2 = ((0,), (1,))
MS_FX2 = ((0,), (1,), (0, 1))
MS_FX2R = ((0,), (1,), (1, 0))  # eligible machines listed in descending order
MS_NF3 = ((0,), (1,), (2,))
MS_FX3 = ((0,), (1,), (2,), (0, 1), (0, 2), (1, 2))


def shapes_with_ops(n_ops: int, max_jobs: int) -> list[tuple[int, ...]]:
    """All ordered tuples of positive job lengths that sum to n_ops."""
    out: list[tuple[int, ...]] = []

    def rec(rest: int, acc: tuple[int, ...]):
        if rest == 0:
            out.append(acc)
            return
        if len(acc) == max_jobs:
            return
        for first in range(1, rest + 1):
            rec(rest - first, acc + (first,))

    rec(n_ops, ())
    out.sort(key=lambda s: (len(s), s))
    return out


def instances_of_shape(
    shape: tuple[int, ...],
    machine_sets: Iterable[tuple[int, ...]],
    durations: Iterable[int],
) -> Iterator[Spec]:
    op_types = [(ms, d) for ms in machine_sets for d in durations]
    n = sum(shape)
    for combo in itertools.product(op_types, repeat=n):
        jobs = []
        k = 0
        for length in shape:
            jobs.append(tuple(combo[k : k + length]))
            k += length
        yield tuple(jobs)


def family(
    shapes: Iterable[tuple[int, ...]],
    machine_sets: Iterable[tuple[int, ...]],
    durations: Iterable[int],
) -> Iterator[Spec]:
    machine_sets = tuple(machine_sets)
    durations = tuple(durations)
    for shape in shapes:
        yield from instances_of_shape(shape, machine_sets, durations)


# ---------------------------------------------------------------------------
# named families
# ---------------------------------------------------------------------------

K3_SHAPES = [s for n in (1, 2, 3) for s in shapes_with_ops(n, 3)]
K4_SHAPES = shapes_with_ops(4, 3)


def K3(durations=(0, 1, 2), machine_sets=MS_FX2) -> Iterator[Spec]:
    """All instances with <= 3 operations, 2 machines, flexible."""
    return family(K3_SHAPES, machine_sets, durations)


def K4(durations=(0, 1, 2), machine_sets=MS_FX2) -> Iterator[Spec]:
    """All instances with exactly 4 operations in <= 3 jobs."""
    return family(K4_SHAPES, machine_sets, durations)


def K3r(durations=(0, 1, 2)) -> Iterator[Spec]:
    """K3 with flexible operations listing their machines as [1, 0]
    (only the instances that contain such an operation)."""
    return (s for s in family(K3_SHAPES, MS_FX2R, durations) if is_flexible(s))


def K4r(durations=(0, 1, 2)) -> Iterator[Spec]:
    return (s for s in family(K4_SHAPES, MS_FX2R, durations) if is_flexible(s))


K5_SHAPES = [(3, 1, 1), (1, 3, 1), (2, 2, 1), (2, 1, 2), (3, 2), (1, 1, 1, 2)]


def K5(durations=(0, 1, 2), machine_sets=MS_FX2) -> Iterator[Spec]:
    """Five operations (6 shapes x 9**5 = 354294 instances): always used sliced."""
    return family(K5_SHAPES, machine_sets, durations)


def K3_pos() -> Iterator[Spec]:
    return K3(durations=(1, 2))


def K4_pos() -> Iterator[Spec]:
    return K4(durations=(1, 2))


def K3_nf(durations=(0, 1, 2)) -> Iterator[Spec]:
    return K3(durations=durations, machine_sets=MS_NF2)


def K4_nf(durations=(0, 1, 2)) -> Iterator[Spec]:
    return K4(durations=durations, machine_sets=MS_NF2)


def M3(durations=(1, 2)) -> Iterator[Spec]:
    """3 machines, flexible, small shapes."""
    return family([(1, 1, 1), (2, 2), (2, 1, 1)], MS_FX3, durations)


def M3_small(durations=(1, 2)) -> Iterator[Spec]:
    return family([(1, 1, 1), (2, 1)], MS_FX3, durations)


def NF5(durations=(0, 1, 3)) -> Iterator[Spec]:
    return family([(3, 2), (2, 2, 1), (2, 1, 1, 1)], MS_NF3, durations)


def sliced(it: Iterable[Spec], k: int, n: int) -> Iterator[Spec]:
    """it[k::n] without materialising."""
    return itertools.islice(it, k, None, n)


def _nf(rows) -> Spec:
    return tuple(tuple(((m,), d) for m, d in job) for job in rows)


# The fixed larger probes (P).  First three mirror tests/conftest.py.
P_EXAMPLE = _nf(
    [
        [(0, 1), (1, 1), (2, 7)],
        [(1, 5), (2, 1), (0, 1)],
        [(2, 1), (0, 3), (1, 2)],
    ]
)
P_EXAMPLE2 = _nf(
    [
        [(0, 2), (1, 2), (2, 2)],
        [(0, 1), (1, 1), (2, 1)],
        [(0, 2), (2, 3), (1, 3)],
    ]
)
P_IRREGULAR = _nf(
    [
        [(0, 1), (1, 1), (2, 7), (0, 2)],
        [(1, 5), (2, 1), (0, 1)],
        [(2, 1), (0, 3), (1, 2)],
    ]
)
P_2X2 = _nf([[(0, 10), (1, 20)], [(1, 15), (0, 10)]])
P_RECIRC = _nf(
    [
        [(0, 2), (0, 1), (1, 2)],
        [(1, 1), (0, 2), (1, 1)],
    ]
)
P_FLEX_UNUSED = (
    (((0, 2), 2), ((2,), 1), ((0, 2), 3)),
    (((2,), 1), ((0, 2), 2)),
)  # machine 1 never used; 3 x 2 flexible
P_4JOBS = _nf(
    [
        [(0, 1), (1, 2)],
        [(1, 1), (0, 2)],
        [(0, 2), (1, 1)],
        [(1, 2), (0, 1)],
    ]
)
P_SINGLE_JOB = _nf([[(0, 1), (1, 2), (0, 3), (1, 1)]])
P_SINGLE_MACHINE = _nf([[(0, 1), (0, 2)], [(0, 2)], [(0, 1)]])
P_ZERO = _nf([[(0, 0), (1, 2), (0, 0)], [(0, 2), (1, 0)]])
P_FLEX_REV = (
    (((1, 0), 2), ((0,), 1)),
    (((1,), 1), ((2, 0), 2)),
)  # machine lists not sorted, 3 machines
P_FLEX3 = (
    (((0, 1, 2), 2), ((1,), 1)),
    (((2, 0), 1), ((0, 1, 2), 2)),
)  # operations eligible on all three machines
P_FLEX_3X2 = (
    (((0, 1), 2), ((1,), 1)),
    (((0,), 1), ((0, 1), 2)),
    (((1,), 2), ((0, 1), 1)),
)

# durations beyond the 24-bit mantissa of float32 (dispatcher-level checks only:
# the feature observers are float32 by design)
_T = 2**30
P_HUGE = [
    _nf([[(0, _T), (1, 1370)], [(0, 1400), (1, _T)]]),
    _nf([[(0, _T + 1), (1, 3)], [(1, _T), (0, 2)], [(0, 5)]]),
    ((((0, 1), _T), ((1,), 7)), (((1,), _T + 3), ((0, 1), 2))),
]
P_SMALL = [P_2X2, P_RECIRC, P_FLEX_UNUSED, P_SINGLE_MACHINE, P_ZERO, P_FLEX_3X2, P_FLEX_REV, P_FLEX3]
P_LARGE = [P_EXAMPLE, P_EXAMPLE2, P_IRREGULAR, P_4JOBS, P_SINGLE_JOB]
P_ALL = P_SMALL + P_LARGE


def n_ops(spec: Spec) -> int:
    return sum(len(j) for j in spec)


def is_flexible(spec: Spec) -> bool:
    return any(len(ms) > 1 for job in spec for ms, _ in job)


def has_zero(spec: Spec) -> bool:
    return any(d == 0 for job in spec for _, d in job)


def num_machines(spec: Spec) -> int:
    return 1 + max(m for job in spec for ms, _ in job for m in ms)


def every_machine_used(spec: Spec) -> bool:
    used = {m for job in spec for ms, _ in job for m in ms}
    return used == set(range(num_machines(spec)))
