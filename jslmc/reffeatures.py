"""Reference (from-scratch) definitions of the built-in feature observers.

For a state ``st`` (RefState) and the filter names installed on the
dispatcher, ``expected(otype, ftype, st, filters, ref)`` returns a dict
``entity_index -> value`` containing **only** the entities the property
constrains (those that still have work left, and only readings the
documentation fixes).  Entities that are absent are not compared.
"""

from __future__ import annotations


def _work_left_ops(st, filters):
    ongoing = set(st.ongoing(filters))
    return set(st.unscheduled()) | ongoing


def machines_with_unscheduled(st):
    ref = st.ref
    out = set()
    for o in st.unscheduled():
        out.update(ref.ops[o][2])
    return out


def jobs_with_unscheduled(st):
    return {j for j in range(st.ref.J) if st.nxt[j] < st.ref.jlen[j]}


def est_matrix(st):
    """est[(j, p)] for every unscheduled operation (recursive definition)."""
    ref = st.ref
    est = {}
    for j in range(ref.J):
        prev_end = st.jf[j]
        for p in range(st.nxt[j], ref.jlen[j]):
            ms, d = ref.jobs[j][p]
            mach = min(st.mf[m] for m in ms)
            s = max(prev_end, mach)
            est[(j, p)] = s
            prev_end = s + d
    return est


def expected(otype, ftype, st, filters, ref):
    now = st.now(filters)
    unsched = st.unscheduled()
    ongoing = st.ongoing(filters)
    if otype == "is_ready":
        avail = st.available(filters)
        if ftype == "operations":
            return {o: (1.0 if o in avail else 0.0) for o in range(ref.N)}
        if ftype == "machines":
            am = {m for o in avail for m in ref.ops[o][2]}
            return {m: (1.0 if m in am else 0.0) for m in range(ref.M)}
        aj = {ref.ops[o][0] for o in avail}
        return {j: (1.0 if j in aj else 0.0) for j in range(ref.J)}
    if otype == "earliest_start_time":
        est = est_matrix(st)
        if ftype == "operations":
            return {o: float(est[(ref.ops[o][0], ref.ops[o][1])] - now) for o in unsched}
        if ftype == "jobs":
            return {j: float(est[(j, st.nxt[j])] - now) for j in jobs_with_unscheduled(st)}
        out = {}
        for m in machines_with_unscheduled(st):
            out[m] = float(
                min(est[(ref.ops[o][0], ref.ops[o][1])] for o in unsched if m in ref.ops[o][2]) - now
            )
        return out
    if otype == "duration":
        if ftype == "operations":
            out = {o: float(ref.ops[o][3]) for o in unsched}
            # ongoing: remaining duration as measured right after its own dispatch
            for o in ongoing:
                k = st.order.index(o)
                sk = ref.state(st.hist[: k + 1])
                _, s, e = sk.where[o]
                out[o] = float(e - max(s, sk.now(filters)))
            return out
        if ftype == "jobs":
            return {
                j: float(sum(ref.jobs[j][p][1] for p in range(st.nxt[j], ref.jlen[j])))
                for j in jobs_with_unscheduled(st)
            }
        if ref.flexible:
            return {}
        return {
            m: float(sum(ref.ops[o][3] for o in unsched if ref.ops[o][2] == (m,)))
            for m in machines_with_unscheduled(st)
        }
    if otype == "is_scheduled":
        if ftype == "operations":
            out = {o: 0.0 for o in unsched}
            out.update({o: 1.0 for o in ongoing})
            return out
        if ftype == "jobs":
            live = jobs_with_unscheduled(st) | {ref.ops[o][0] for o in ongoing}
            return {j: float(sum(1 for o in ongoing if ref.ops[o][0] == j)) for j in live}
        live = machines_with_unscheduled(st) | {st.where[o][0] for o in ongoing}
        return {m: float(sum(1 for o in ongoing if st.where[o][0] == m)) for m in live}
    if otype == "position_in_job":
        return {o: float(ref.ops[o][1] - st.nxt[ref.ops[o][0]]) for o in unsched}
    if otype == "remaining_operations":
        if ftype == "jobs":
            return {j: float(ref.jlen[j] - st.nxt[j]) for j in jobs_with_unscheduled(st)}
        if ref.flexible:
            return {}
        return {
            m: float(sum(1 for o in unsched if ref.ops[o][2] == (m,)))
            for m in machines_with_unscheduled(st)
        }
    if otype == "is_completed":
        if ftype == "operations":
            out = {o: 0.0 for o in unsched}
            out.update({o: 0.0 for o in ongoing})
            return out
        if ftype == "jobs":
            return {j: 0.0 for j in jobs_with_unscheduled(st)}
        if ref.flexible:
            return {}
        return {m: 0.0 for m in machines_with_unscheduled(st)}
    raise KeyError(otype)
