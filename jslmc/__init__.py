"""jslmc - bounded exhaustive exploration (model checking) of job_shop_lib.

See /verif/DESIGN.md.  Everything here runs the *real* library that lives in
$JSLMC_REPO (default /repo) and compares it with the independent reference
model in :mod:`jslmc.refmodel`.
"""
