"""E5: TLC cross-check of the dispatcher core (model -> implementation).

For a fixed instance: emit MC.tla/MC.cfg, run TLC with a state-graph dump,
parse the complete labelled graph and replay EVERY edge on the real Dispatcher
(source state reached through its BFS-tree path on fresh objects), comparing
the full TLA+ state with the implementation; the number of distinct TLA+ states
must equal the number of distinct projections found by the Python explorer.
If tlc / java is unavailable the step is recorded as skipped, never as a
violation.
"""

from __future__ import annotations

import os
import re
import shutil
import subprocess
import tempfile
from collections import deque

from . import families as F
from . import impl
from .refmodel import Ref

TLA_DIR = os.path.join(os.path.dirname(os.path.abspath(__file__)), "tla")
INSTANCES = [F.P_EXAMPLE, F.P_FLEX_3X2, F.P_ZERO]


def tla_seq(xs):
    return "<<" + ", ".join(xs) + ">>"


def emit(spec, workdir):
    ref = Ref(spec)
    jlen = tla_seq(str(n) for n in ref.jlen)
    jmach = tla_seq(
        tla_seq("{" + ", ".join(str(m + 1) for m in ms) + "}" for ms, _ in job) for job in spec
    )
    jdur = tla_seq(tla_seq(str(d) for _, d in job) for job in spec)
    shutil.copy(os.path.join(TLA_DIR, "Dispatcher.tla"), os.path.join(workdir, "Dispatcher.tla"))
    with open(os.path.join(workdir, "MC.tla"), "w") as f:
        f.write(
            "---- MODULE MC ----\nEXTENDS Dispatcher\n"
            f"const_JLen == {jlen}\nconst_JMach == {jmach}\nconst_JDur == {jdur}\n====\n"
        )
    with open(os.path.join(workdir, "MC.cfg"), "w") as f:
        f.write(
            f"CONSTANTS\n NJ = {ref.J}\n NM = {ref.M}\n JLen <- const_JLen\n JMach <- const_JMach\n JDur <- const_JDur\n"
            "INIT Init\nNEXT Next\nINVARIANT TypeOK\n"
        )
    return ref


def run_tlc(workdir):
    if shutil.which("tlc") is None:
        return None, "tlc not on PATH"
    cmd = ["tlc", "-workers", "1", "-deadlock", "-noGenerateSpecTE", "-metadir", os.path.join(workdir, "meta"), "-dump", "dot,actionlabels", os.path.join(workdir, "graph"), "MC"]
    try:
        p = subprocess.run(cmd, cwd=workdir, capture_output=True, text=True, timeout=600)
    except Exception as exc:  # noqa: BLE001
        return None, f"tlc failed to run: {exc!r}"
    out = p.stdout + p.stderr
    dot = os.path.join(workdir, "graph.dot")
    if not os.path.exists(dot):
        return None, "no state graph dumped: " + out[-400:]
    return open(dot).read(), out


_SEQ = re.compile(r"<<([^<>]*)>>")


def parse_state(label):
    """'/\\ nxt = <<1, 1>>\\n/\\ jf = <<0, 0>> ...' -> dict of int tuples."""
    st = {}
    text = label.replace("\\n", "\n").replace("\\\\", "\\")
    for line in text.split("\n"):
        m = re.match(r"\s*/\\\s*(\w+)\s*=\s*<<(.*)>>\s*$", line)
        if m:
            body = m.group(2).strip()
            st[m.group(1)] = tuple(int(x) for x in body.split(",")) if body else ()
    return st


def parse_dot(dot):
    nodes, edges = {}, []
    for line in dot.splitlines():
        line = line.strip()
        m = re.match(r'^(-?\d+) -> (-?\d+)', line)
        if m:
            edges.append((m.group(1), m.group(2)))
            continue
        m = re.match(r'^(-?\d+) \[label="(.*?)"(,|\])', line)
        if m:
            nodes[m.group(1)] = parse_state(m.group(2))
    return nodes, edges


def impl_state(d, last):
    return {
        "nxt": tuple(i + 1 for i in d.job_next_operation_index),
        "jf": tuple(d.job_next_available_time),
        "mf": tuple(d.machine_next_available_time),
        "last": last,
    }


def run_tlc_case(res, k, prop):
    spec = INSTANCES[k]
    check = "tlc_model_conformance"
    sig = {"instance": k}
    work = tempfile.mkdtemp(prefix="jslmc-tlc-")
    try:
        ref = emit(spec, work)
        dot, out = run_tlc(work)
        if dot is None:
            res.note("tlc-skipped")
            res.add("evaluations")
            res.sample({"tlc": "skipped", "reason": out[:200]})
            return
        if "Error:" in out and "Invariant" in out:
            res.violation(check, "tlc-invariant-violated", sig=sig, spec=spec, output=out[-600:])
        nodes, edges = parse_dot(dot)
        init = [n for n, s in nodes.items() if s.get("last") == (0, 0, 0)]
        if len(init) != 1:
            res.violation(check, "cannot-identify-initial-state", sig=sig, spec=spec, n=len(init))
            return
        succ = {}
        for u, v in edges:
            succ.setdefault(u, []).append(v)
        # BFS tree: path (list of (job, machine), 0-based) to every state
        path = {init[0]: ()}
        dq = deque(init)
        while dq:
            u = dq.popleft()
            for v in succ.get(u, []):
                if v not in path:
                    j, m, _ = nodes[v]["last"]
                    path[v] = path[u] + ((j - 1, m - 1),)
                    dq.append(v)
        if len(path) != len(nodes):
            res.violation(check, "unreachable-states-in-dump", sig=sig, spec=spec, reachable=len(path), dumped=len(nodes))
        # every edge replayed on the implementation
        inst = impl.mk_instance(spec)
        for u, v in edges:
            res.add("transitions")
            res.add("evaluations")
            hist = path[u]
            if len(hist) >= 2:
                res.add("nontrivial")
            d = impl.mk_dispatcher(inst)
            impl.replay(d, hist)
            last = (0, 0, 0)
            if hist:
                j, m = hist[-1]
                sop = d.schedule.schedule[m][-1]
                last = (j + 1, m + 1, sop.start_time)
            got_u = impl_state(d, last)
            if got_u != nodes[u]:
                res.violation(check, "implementation-state-differs-from-model-state", sig=sig, spec=spec, history=hist, model=nodes[u], implementation=got_u)
                continue
            j1, m1, s1 = nodes[v]["last"]
            try:
                impl.dispatch(d, j1 - 1, m1 - 1)
            except Exception as exc:  # noqa: BLE001
                res.violation(check, "model-transition-rejected-by-implementation", sig=sig, spec=spec, history=hist, request=(j1 - 1, m1 - 1), error=repr(exc)[:200])
                continue
            sop = d.schedule.schedule[m1 - 1][-1]
            got_v = impl_state(d, (j1, m1, sop.start_time))
            if got_v != nodes[v]:
                res.violation(check, "implementation-successor-differs-from-model", sig=sig, spec=spec, history=hist, request=(j1 - 1, m1 - 1), model=nodes[v], implementation=got_v)
        # the implementation accepts nothing the model does not: per model
        # state, the model's successor requests == the reference's children
        for u, hist in path.items():
            model_reqs = sorted({(nodes[v]["last"][0] - 1, nodes[v]["last"][1] - 1) for v in succ.get(u, [])})
            if model_reqs != sorted(ref.children(hist)):
                res.violation(check, "model-successors-differ-from-explorer-children", sig=sig, spec=spec, history=hist, model=model_reqs, explorer=sorted(ref.children(hist)))
        # state-count agreement with the Python explorer (same projection)
        proj = set()
        for h in ref.all_histories(complete_only=False):
            st = ref.state(h)
            last = (0, 0, 0)
            if h:
                j, m = h[-1]
                last = (j + 1, m + 1, st.where[st.order[-1]][1])
            proj.add((tuple(n + 1 for n in st.nxt), tuple(st.jf), tuple(st.mf), last))
        model_states = {(s["nxt"], s["jf"], s["mf"], s["last"]) for s in nodes.values()}
        if proj != model_states:
            res.violation(check, "state-sets-differ-between-tlc-and-explorer", sig=sig, spec=spec, tlc=len(model_states), explorer=len(proj), only_tlc=sorted(model_states - proj)[:3], only_explorer=sorted(proj - model_states)[:3])
        res.add("states", len(nodes))
        res.add("traces", len(edges))
        res.add("tlc_states", len(nodes))
        res.add("tlc_edges_replayed", len(edges))
        res.sample({"tlc_instance": spec, "tlc_states": len(nodes), "tlc_edges_replayed_on_implementation": len(edges), "property": prop})
    finally:
        shutil.rmtree(work, ignore_errors=True)
