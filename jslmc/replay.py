"""CLI: python -m jslmc.replay <replay.json>

Re-executes the single recorded case (no exploration around it) and reports
whether the recorded violation shows up again.  Exit 1 if it does, 0 if not.
"""

from __future__ import annotations

import importlib
import json
import os
import sys


def tuplify(x):
    if isinstance(x, list):
        return tuple(tuplify(v) for v in x)
    if isinstance(x, dict):
        return {k: tuplify(v) for k, v in x.items()}
    return x


def main(argv=None):
    argv = argv or sys.argv[1:]
    if os.environ.get("PYTHONHASHSEED") != "0" or os.environ.get("MPLBACKEND") != "Agg":
        env = dict(os.environ, PYTHONHASHSEED="0", MPLBACKEND="Agg")
        os.execve(sys.executable, [sys.executable, "-m", "jslmc.replay"] + argv, env)
    import warnings

    warnings.filterwarnings("ignore")
    from . import core, impl

    impl.assert_repo()
    rec = json.load(open(argv[0]))
    mod = importlib.import_module(rec["module"])
    case = tuplify(rec["case"])
    res = core.run_one(mod, case)
    hit = [v for (c, k, _), v in res.viol.items() if (c, k) == (rec["check"], rec["kind"])]
    if hit:
        v = hit[0]
        v.pop("_case_raw", None)
        print(f"REPRODUCED property={rec['property']} check={rec['check']} kind={rec['kind']}")
        print(json.dumps(v.get("details", {}), indent=1, default=repr)[:3000])
        return 1
    print(f"not reproduced: {rec['check']} / {rec['kind']} (other violations: {sorted((c, k) for c, k, _ in res.viol)})")
    return 0


if __name__ == "__main__":
    sys.exit(main())
