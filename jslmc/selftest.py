"""Setup self-test: the explorer visits the known history tree of a 2x2 instance
on the real library (19 prefixes, 6 complete histories) and the choice explorer
enumerates a known tree."""

from __future__ import annotations

import os
import sys


def main():
    os.environ.setdefault("MPLBACKEND", "Agg")
    from . import impl
    from .core import Res
    from .checks import _disp
    from .explore import explore_choices
    from . import families as F

    impl.assert_repo()
    res = Res()
    seen = []

    def visit(hist, live, parent, ref):
        seen.append(hist)
        assert impl.snap_schedule(live.d.schedule) == tuple(
            tuple((o, s, m) for (o, s, _) in ml)
            for m, ml in enumerate(ref.state(hist).sched)
        )

    _disp.explore(res, F.P_2X2, (), visit, "selftest")
    n_complete = sum(1 for h in seen if len(h) == 4)
    assert len(seen) == 19 and n_complete == 6, (len(seen), n_complete)
    assert not res.viol, res.viol

    leaves = [c for c, _ in explore_choices(lambda ch: (ch.choose(2), ch.choose(3)))]
    assert len(leaves) == 6 and len(set(leaves)) == 6, leaves
    os.makedirs(os.path.join(os.path.dirname(os.path.dirname(__file__)), "evidence"), exist_ok=True)
    print("jslmc selftest ok: 19 prefixes / 6 complete histories; 6 choice leaves")


if __name__ == "__main__":
    sys.exit(main())
