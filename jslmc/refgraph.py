"""Reference node / edge sets of the graph encodings (no library import)."""

from __future__ import annotations

import itertools


def nodes_spec(ref, builder):
    """[(type_name, payload)] in node-id order."""
    nodes = [("OPERATION", o) for o in range(ref.N)]
    if builder == "disjunctive":
        nodes += [("SOURCE", None), ("SINK", None)]
        return nodes
    nodes += [("MACHINE", m) for m in range(ref.M)]
    if builder in ("agent_task_with_jobs", "complete_agent_task"):
        nodes += [("JOB", j) for j in range(ref.J)]
    if builder == "complete_agent_task":
        nodes += [("GLOBAL", None)]
    return nodes


def edges_spec(ref, builder):
    """dict (u, v) -> set of admissible type names (None = untyped)."""
    E = {}

    def add(u, v, t):
        E.setdefault((u, v), set()).add(t)

    N, M, J = ref.N, ref.M, ref.J
    if builder == "disjunctive":
        src, snk = N, N + 1
        for m in range(M):
            ops = [o for o in range(N) if m in ref.ops[o][2]]
            for a, b in itertools.combinations(ops, 2):
                add(a, b, "DISJUNCTIVE")
                add(b, a, "DISJUNCTIVE")
        for j in range(J):
            for p in range(1, ref.jlen[j]):
                # the job chain is a hard precedence: where the pair also
                # shares a machine the forward edge is the conjunctive one
                # (the reverse edge still carries the disjunctive pairing)
                E[(ref.op_id[(j, p - 1)], ref.op_id[(j, p)])] = {"CONJUNCTIVE"}
            add(src, ref.op_id[(j, 0)], "CONJUNCTIVE")
            add(ref.op_id[(j, ref.jlen[j] - 1)], snk, "CONJUNCTIVE")
        return E
    mnode = lambda m: N + m
    for o in range(N):
        for m in ref.ops[o][2]:
            add(o, mnode(m), None)
            add(mnode(m), o, None)
    if builder in ("agent_task", "agent_task_with_jobs"):
        for a, b in itertools.permutations(range(M), 2):
            add(mnode(a), mnode(b), None)
    if builder == "agent_task":
        for j in range(J):
            ops = [ref.op_id[(j, p)] for p in range(ref.jlen[j])]
            for a, b in itertools.permutations(ops, 2):
                add(a, b, None)
        return E
    jnode = lambda j: N + M + j
    for o in range(N):
        j = ref.ops[o][0]
        add(o, jnode(j), None)
        add(jnode(j), o, None)
    if builder == "agent_task_with_jobs":
        for a, b in itertools.permutations(range(J), 2):
            add(jnode(a), jnode(b), None)
        return E
    g = N + M + J
    for m in range(M):
        add(g, mnode(m), None)
        add(mnode(m), g, None)
    for j in range(J):
        add(g, jnode(j), None)
        add(jnode(j), g, None)
    return E


def longest_path(n_nodes, edges, weight, source, sink):
    """Own DP over a Kahn topological order. Returns None if cyclic."""
    succ = {u: [] for u in range(n_nodes)}
    indeg = {u: 0 for u in range(n_nodes)}
    for u, v in edges:
        succ[u].append(v)
        indeg[v] += 1
    order = []
    stack = [u for u in range(n_nodes) if indeg[u] == 0]
    while stack:
        u = stack.pop()
        order.append(u)
        for v in succ[u]:
            indeg[v] -= 1
            if indeg[v] == 0:
                stack.append(v)
    if len(order) != n_nodes:
        return None
    NEG = float("-inf")
    dist = {u: NEG for u in range(n_nodes)}
    dist[source] = weight.get(source, 0)
    for u in order:
        if dist[u] == NEG:
            continue
        for v in succ[u]:
            cand = dist[u] + weight.get(v, 0)
            if cand > dist[v]:
                dist[v] = cand
    return dist[sink]
