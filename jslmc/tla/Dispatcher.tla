---------------------------- MODULE Dispatcher ----------------------------
(* Independent model of job_shop_lib's Dispatcher core (DESIGN 2.1, E5).    *)
(* Jobs and machines are numbered from 1 here (0-based in the library).     *)
EXTENDS Naturals, Sequences

CONSTANTS NJ,     \* number of jobs
          NM,     \* number of machines
          JLen,   \* JLen[j]       = number of operations of job j
          JMach,  \* JMach[j][p]   = set of eligible machines of operation p of job j
          JDur    \* JDur[j][p]    = duration of that operation

VARIABLES nxt,    \* nxt[j]  = position (1-based) of the next operation of job j
          jf,     \* jf[j]   = time at which job j becomes free
          mf,     \* mf[m]   = time at which machine m becomes free
          last    \* <<job, machine, start>> of the last accepted dispatch

vars == <<nxt, jf, mf, last>>

Jobs     == 1..NJ
Machines == 1..NM
Max(a, b) == IF a > b THEN a ELSE b

Init == /\ nxt  = [j \in Jobs |-> 1]
        /\ jf   = [j \in Jobs |-> 0]
        /\ mf   = [m \in Machines |-> 0]
        /\ last = <<0, 0, 0>>

Dispatch(j, m) ==
    /\ nxt[j] <= JLen[j]
    /\ m \in JMach[j][nxt[j]]
    /\ LET s == Max(jf[j], mf[m])
           e == s + JDur[j][nxt[j]]
       IN /\ nxt'  = [nxt EXCEPT ![j] = @ + 1]
          /\ jf'   = [jf EXCEPT ![j] = e]
          /\ mf'   = [mf EXCEPT ![m] = e]
          /\ last' = <<j, m, s>>

Next == \E j \in Jobs, m \in Machines : Dispatch(j, m)

Spec == Init /\ [][Next]_vars

(* start times are never negative and clocks never run backwards *)
TypeOK == /\ \A j \in Jobs : nxt[j] \in 1..(JLen[j] + 1)
          /\ \A j \in Jobs : jf[j] >= 0
          /\ \A m \in Machines : mf[m] >= 0
=============================================================================
