"""C08 - pruning dominated operations never loses the optimum."""

from __future__ import annotations

from .. import families as F
from .. import impl
from ..core import Res
from ..refmodel import Ref, optimum, DOM

PROPERTY = "C08"
CHUNK = 16
RULE = (
    "For every positive-duration instance of the family two state graphs are explored "
    "exhaustively on the real Dispatcher (memoised on the schedule content): the full one "
    "(every ready operation x eligible machine) and the pruned one (only operations returned "
    "by available_operations() of a dispatcher built with filter_dominated_operations). The "
    "minimum makespan over each must be equal, and equal to the reference optimum computed "
    "without the library. Case = one instance; non-trivial = instance with >= 2 jobs and >= 3 "
    "operations whose pruned graph is strictly smaller than the full graph."
)
ASSUMPTIONS = [
    "bounded to the listed positive-duration families (<= 6 operations, <= 3 machines; durations {1,2,3} plus three probes with durations around 2**30)",
    "semi-active schedules (what dispatching produces) contain an optimal schedule - standard result, also used by the reference optimum",
]
BOUNDS = {
    "quick": "K3+ and K4+ complete (2 machines, flexible, durations {1,2}); shapes (1,1,1),(2,2) on 3 machines flexible; positive probes",
    "thorough": "+ M3 (3 machines); shapes (3,2),(2,2,1) complete and (2,2,2),(3,3) [seed%4::4] on 2 machines flexible durations {1,2}; (2,2),(2,1,1) durations {1,2,3}",
}


def cases(tier, seed):
    out = [("opt", s) for s in F.K3_pos()]
    out += [("opt", s) for s in F.K4_pos()]
    out += [("opt", s) for s in F.P_ALL + F.P_HUGE if not F.has_zero(s) and F.n_ops(s) <= 8]
    if tier == "quick":
        out += [("opt", s) for s in F.family([(1, 1, 1), (2, 2)], F.MS_FX3, (1, 2))]
    if tier != "quick":
        out += [("opt", s) for s in F.M3()]
        out += [("opt", s) for s in F.family([(3, 2), (2, 2, 1)], F.MS_FX2, (1, 2))]
        out += [("opt", s) for s in F.sliced(F.family([(2, 2, 2), (3, 3)], F.MS_FX2, (1, 2)), seed % 4, 4)]
        out += [("opt", s) for s in F.family([(2, 2), (2, 1, 1)], F.MS_FX2, (1, 2, 3))]
    return out


def heavy(case):
    return F.n_ops(case[1]) >= 6


def search(res, inst, ref, filters):
    """Exhaustive memoised search on the real dispatcher. Returns (best, states)."""
    best = None
    seen = set()
    stack = [()]
    # one dispatcher for the whole search, every node reached by reset() +
    # replay - the way a tree search uses it (state that a filter or the
    # dispatcher keeps across a reset would corrupt the pruned search)
    d = impl.mk_dispatcher(inst, filters)
    while stack:
        hist = stack.pop()
        d.reset()
        impl.replay(d, hist)
        res.add("replayed_dispatches", len(hist))
        key = impl.snap_schedule(d.schedule)
        if key in seen:
            continue
        seen.add(key)
        if d.schedule.is_complete():
            mk = d.schedule.makespan()
            res.add("traces")
            if best is None or mk < best:
                best = mk
            continue
        avail = d.available_operations()
        if not avail:
            return None, len(seen)
        for o in avail:
            for m in o.machines:
                res.add("transitions")
                stack.append(hist + ((o.job_id, m),))
    return best, len(seen)


def run_case(case) -> Res:
    _, spec = case
    res = Res()
    ref = Ref(spec)
    inst = impl.mk_instance(spec)
    full, n_full = search(res, inst, ref, ())
    pruned, n_pruned = search(res, inst, ref, (DOM,))
    opt = optimum(ref)
    res.add("states", n_full + n_pruned)
    res.add("evaluations")
    if ref.J >= 2 and ref.N >= 3 and n_pruned < n_full:
        res.add("nontrivial")
        res.sample({"spec": spec, "optimum": opt, "states_full": n_full, "states_pruned": n_pruned})
    res.aux_add("outcomes", (full, n_full - n_pruned > 0))
    if pruned is None:
        res.violation("pruned_optimum", "pruned-tree-deadlocks", spec=spec)
    elif pruned != full:
        res.violation("pruned_optimum", "pruning-loses-optimum", spec=spec, full_tree_min=full, pruned_tree_min=pruned, reference_optimum=opt)
    if full != opt:
        res.violation("pruned_optimum", "full-tree-min-differs-from-reference-optimum", spec=spec, full_tree_min=full, reference_optimum=opt)
    return res


def finalize(total, tier, seed):
    return {"distinct_outcomes": len(total.aux.get("outcomes", ()))}
