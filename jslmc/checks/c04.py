"""C04 - dispatching-rule solvers always finish and follow their rule."""

from __future__ import annotations

import itertools
import signal
import time as _time_module

from .. import families as F
from .. import impl
from ..core import Res
from ..explore import Chooser, explore_choices, owned_random
from ..refmodel import Ref, feasibility_errors, filter_configs
from . import _disp

PROPERTY = "C04"
CHUNK = 8
RULE = (
    "(rules) at every node of every *filtered* dispatch tree (children = available "
    "operations, every machine) of every instance x filter configuration, each built-in rule, "
    "score_based_rule(f) and score_based_rule_with_tie_breaker([f, g]) for every ordered pair "
    "of built-in scoring functions is evaluated on the real Dispatcher; the selection must be "
    "an available operation that is best under the documented key / lexicographically best "
    "under the returned scores; the random rule and random_score are explored under an owned "
    "`random` (every answer); direct and observer-based most-work-remaining must select the "
    "same operation in every state (also with two dispatchers alternating). (solvers) "
    "DispatchingRuleSolver for every rule x machine chooser x filter is run to completion for "
    "every answer of the random source: terminates within #operations steps, complete and "
    "feasible, every selection best in its state. (metadata) solver(instance) under an owned "
    "clock: elapsed_time == t1 - t0 >= 0 for every enumerated clock increment, solved_by == "
    "class name. For deterministic configurations solve(instance) and solve(instance, dispatcher) on a dispatcher advanced by 1, N/2, N-1 and N steps of that run must give the same complete schedule. Case = one (state, rule) evaluation or one solver run; non-trivial = state "
    "with >= 2 available operations."
)
ASSUMPTIONS = [
    "bounded to the listed families",
    "most-operations-remaining accepts both documented readings of 'remaining' (unscheduled, or unscheduled + ongoing)",
    "random_score draws one of 101 values per job: explored with at most one non-default answer per evaluation (deviation bound 1), at the root and after a first dispatch of the last job, unfiltered tree",
    "the candidate set is the implementation's own available_operations() (its correctness is C07's business)",
]
BOUNDS = {
    "quick": "rules: K3 x {none, default pair, one of the 4 single filters in rotation}, K3r, K4[seed%16::16] x {none, default pair}, probes; solvers: K3[seed%2::2] + probes x 5 rules x 2 choosers x 6 filter configs (all random answers); metadata: 3 instances x 3 clock increments",
    "thorough": "rules: K3 x 17 filter configs, K4 x 6, M3 small; solvers: K3, K4[seed%8::8], probes",
}

CFG6 = [(), ("dominated_operations",), ("non_immediate_machines",), ("non_idle_machines",), ("non_immediate_operations",), ("dominated_operations", "non_idle_machines")]
RULES = ("shortest_processing_time", "first_come_first_served", "most_work_remaining", "most_operations_remaining", "random")


def cases(tier, seed):
    out = []
    if tier == "quick":
        for i, s in enumerate(F.K3()):
            out.append(("rules", s, ((), CFG6[-1], CFG6[1 + (i + seed) % 4])))
        for s in F.K3r():
            out.append(("rules", s, ((), CFG6[-1])))
        for s in F.sliced(F.K4(), seed % 16, 16):
            out.append(("rules", s, ((), CFG6[-1])))
        for s in F.P_ALL:
            out.append(("rules", s, ((), CFG6[-1]) if F.n_ops(s) <= 6 else (CFG6[-1],)))
        for s in list(F.sliced(F.K3(), seed % 2, 2)) + F.P_ALL:
            out.append(("solvers", s))
    else:
        for s in F.K3():
            out.append(("rules", s, tuple(filter_configs(2))))
        for s in F.K3r():
            out.append(("rules", s, tuple(CFG6)))
        for s in F.K4():
            out.append(("rules", s, tuple(CFG6)))
        for s in F.M3_small():
            out.append(("rules", s, ((), CFG6[-1])))
        for s in F.P_ALL:
            out.append(("rules", s, tuple(CFG6) if F.n_ops(s) <= 6 else (CFG6[-1],)))
        for s in list(F.K3()) + list(F.sliced(F.K4(), seed % 8, 8)) + F.P_ALL:
            out.append(("solvers", s))
    for s in (F.P_2X2, F.P_FLEX_3X2, F.P_ZERO):
        out.append(("metadata", s))
    for s in F.P_HUGE:
        out.append(("solvers", s))
    return out


def heavy(case):
    return F.n_ops(case[1]) >= 5


def run_case(case) -> Res:
    res = Res()
    if case[0] == "rules":
        for filters in case[2]:
            run_rules(res, case[1], filters)
    elif case[0] == "solvers":
        run_solvers(res, case[1])
    else:
        run_metadata(res, case[1])
    return res


# ---------------------------------------------------------------------------
# documented criteria, evaluated on the reference state
# ---------------------------------------------------------------------------
def key_values(rule, ref, st, filters, avail):
    """dict op -> admissible key tuples (max is best); one entry per reading."""
    if rule == "shortest_processing_time":
        return [{o: -ref.ops[o][3] for o in avail}]
    if rule == "first_come_first_served":
        return [{o: -ref.ops[o][1] for o in avail}]
    if rule == "most_work_remaining":
        work = {j: sum(ref.jobs[j][p][1] for p in range(st.nxt[j], ref.jlen[j])) for j in range(ref.J)}
        return [{o: work[ref.ops[o][0]] for o in avail}]
    if rule == "most_operations_remaining":
        uns = {j: ref.jlen[j] - st.nxt[j] for j in range(ref.J)}
        ong = st.ongoing(filters) if (ref.positive or "dominated_operations" not in filters) else None
        readings = [{o: uns[ref.ops[o][0]] for o in avail}]
        if ong is not None:
            unc = dict(uns)
            for o in ong:
                unc[ref.ops[o][0]] += 1
            readings.append({o: unc[ref.ops[o][0]] for o in avail})
        else:
            readings.append(None)  # reading not computable here: accept any available
        return readings
    raise KeyError(rule)


def is_best(op, readings):
    for r in readings:
        if r is None:
            return True
        if op in r and r[op] == max(r.values()):
            return True
    return False


def rule_funcs():
    from job_shop_lib.dispatching import rules as R

    return {
        "shortest_processing_time": R.shortest_processing_time_rule,
        "first_come_first_served": R.first_come_first_served_rule,
        "most_work_remaining": R.most_work_remaining_rule,
        "most_operations_remaining": R.most_operations_remaining_rule,
    }


def score_funcs():
    from job_shop_lib.dispatching import rules as R

    return {
        "spt_score": R.shortest_processing_time_score,
        "fcfs_score": R.first_come_first_served_score,
        "mwkr_scorer": R.MostWorkRemainingScorer(),
        "mor_score": R.most_operations_remaining_score,
    }


def run_rules(res, spec, filters):
    check = "rule_selects_best_available"
    from job_shop_lib.dispatching import rules as R

    fsig = "+".join(filters) if filters else "none"
    stash = {}
    funcs = rule_funcs()
    scorers = score_funcs()
    pairs = list(itertools.permutations(scorers, 2))

    def make_extra(inst, d):
        # observers of the observer-based rule are subscribed from the start,
        # and a twin dispatcher shares the module-level scorer
        # the shared scorer is first used on a throw-away dispatcher of the same
        # instance that is never advanced, then on the real one
        R.observer_based_most_work_remaining_rule(impl.mk_dispatcher(inst, filters))
        R.observer_based_most_work_remaining_rule(d)
        twin = impl.mk_dispatcher(inst, filters)
        R.observer_based_most_work_remaining_rule(twin)
        for s in scorers.values():
            s(d)  # MostWorkRemainingScorer creates/gets its observers now
        return twin

    def on_dispatch(live, c):
        impl.dispatch(live.extra, *c)

    def visit(hist, live, parent_obs, ref):
        d, inst = live.d, live.inst
        st = ref.state(hist)
        avail_objs = list(d.available_operations())
        avail = [o.operation_id for o in avail_objs]
        stash[hist] = [(ref.ops[o][0], m) for o in avail for m in ref.ops[o][2]]
        if not avail:
            return None
        common = dict(spec=spec, filters=filters, history=hist, available=avail)
        nontrivial = len(avail) >= 2

        def count():
            res.add("evaluations")
            res.add("transitions")
            if nontrivial:
                res.add("nontrivial")

        for name, f in funcs.items():
            count()
            sig = {"rule": name, "filters": fsig}
            try:
                op = f(d)
            except Exception as exc:  # noqa: BLE001
                res.violation(check, f"rule-raised:{type(exc).__name__}", sig=sig, rule=name, error=repr(exc)[:200], **common)
                continue
            oid = getattr(op, "operation_id", None)
            if oid not in avail or inst.jobs[op.job_id][op.position_in_job] is not op:
                res.violation(check, "selected-operation-not-available", sig=sig, rule=name, selected=oid, **common)
            elif not is_best(oid, key_values(name, ref, st, filters, avail)):
                res.violation(check, "selected-operation-not-best", sig=sig, rule=name, selected=oid, keys=key_values(name, ref, st, filters, avail), **common)
        # direct vs observer-based most work remaining, two dispatchers alternating
        count()
        try:
            a = funcs["most_work_remaining"](d).operation_id
            b = R.observer_based_most_work_remaining_rule(d).operation_id
            c = R.observer_based_most_work_remaining_rule(live.extra).operation_id
            b2 = R.observer_based_most_work_remaining_rule(d).operation_id
            if not (a == b == c == b2):
                res.violation("mwkr_direct_equals_observer_based", "selections-differ", sig={"filters": fsig}, direct=a, observer_based=b, twin=c, again=b2, **common)
        except Exception as exc:  # noqa: BLE001
            res.violation("mwkr_direct_equals_observer_based", f"raised:{type(exc).__name__}", sig={"filters": fsig}, error=repr(exc)[:200], **common)
        # random rule: every answer
        seen = set()

        def run_random(ch):
            with owned_random(ch):
                return R.random_operation_rule(d).operation_id

        for choices, oid in explore_choices(run_random):
            count()
            seen.add(oid)
        if seen != set(avail):
            res.violation(check, "random-rule-outcomes-differ-from-available", sig={"rule": "random", "filters": fsig}, outcomes=sorted(seen), **common)
        # score based rules
        scores = {}
        for sname, sf in scorers.items():
            try:
                scores[sname] = [float(x) for x in sf(d)]
            except Exception as exc:  # noqa: BLE001
                res.violation(check, f"score-function-raised:{type(exc).__name__}", sig={"rule": sname, "filters": fsig}, error=repr(exc)[:200], **common)
        for sname, sf in scorers.items():
            if sname not in scores:
                continue
            count()
            sig = {"rule": f"score_based_rule({sname})", "filters": fsig}
            try:
                op = R.score_based_rule(sf)(d)
                sc = scores[sname]
                best = max(sc[ref.ops[o][0]] for o in avail)
                if op.operation_id not in avail or sc[op.job_id] != best:
                    res.violation(check, "score-rule-not-best-available", sig=sig, selected=op.operation_id, scores=sc, **common)
            except Exception as exc:  # noqa: BLE001
                res.violation(check, f"score-rule-raised:{type(exc).__name__}", sig=sig, error=repr(exc)[:200], scores=scores.get(sname), **common)
        for s1, s2 in pairs:
            if s1 not in scores or s2 not in scores:
                continue
            count()
            sig = {"rule": "score_based_rule_with_tie_breaker", "filters": fsig}
            try:
                op = R.score_based_rule_with_tie_breaker([scorers[s1], scorers[s2]])(d)
                vec = {o: (scores[s1][ref.ops[o][0]], scores[s2][ref.ops[o][0]]) for o in avail}
                if op.operation_id not in avail or vec[op.operation_id] != max(vec.values()):
                    res.violation(check, "tie-breaker-rule-not-lexicographically-best", sig=sig, functions=(s1, s2), selected=op.operation_id, score_vectors=vec, **common)
            except Exception as exc:  # noqa: BLE001
                res.violation(check, f"tie-breaker-rule-raised:{type(exc).__name__}", sig=sig, functions=(s1, s2), error=repr(exc)[:200], scores=(scores[s1], scores[s2]), **common)
        # random_score as primary / secondary function (owned random)
        if ref.J <= 3 and not filters and (len(hist) == 0 or (len(hist) == 1 and hist[0][0] == ref.J - 1)):
            for order in ("random-first", "random-second"):
                fl = [R.random_score, scorers["spt_score"]] if order == "random-first" else [scorers["mor_score"], R.random_score]

                def run_rs(ch):
                    with owned_random(ch):
                        try:
                            op = R.score_based_rule_with_tie_breaker(fl)(d)
                            return ("ok", op.operation_id, [c for c in ch.choices])
                        except Exception as exc:  # noqa: BLE001
                            return ("raised", type(exc).__name__, [c for c in ch.choices])

                for choices, out in explore_choices(run_rs, max_deviations=1):
                    count()
                    if out[0] == "raised":
                        res.violation(check, f"tie-breaker-rule-raised:{out[1]}", sig={"rule": "score_based_rule_with_tie_breaker", "filters": fsig}, functions=order, random_answers=out[2], **common)
                        break
                    rs = list(out[2])[: ref.J] + [0] * (ref.J - len(out[2]))
                    other = scores.get("spt_score" if order == "random-first" else "mor_score")
                    if other is None:
                        break
                    vec = {o: ((rs[ref.ops[o][0]], other[ref.ops[o][0]]) if order == "random-first" else (other[ref.ops[o][0]], rs[ref.ops[o][0]])) for o in avail}
                    if out[1] not in avail or vec[out[1]] != max(vec.values()):
                        res.violation(check, "tie-breaker-rule-not-lexicographically-best", sig={"rule": "score_based_rule_with_tie_breaker", "filters": fsig}, functions=order, selected=out[1], score_vectors=vec, **common)
                        break
        if nontrivial and len(hist) >= 1 and len(res.samples) < 1 and ref.N >= 3:
            res.sample({"spec": spec, "filters": filters, "history": hist, "available": avail, "keys": {r: key_values(r, ref, st, filters, avail)[0] for r in funcs}})
        return None

    def children(hist):
        return stash.get(hist, [])

    _disp.explore(res, spec, filters, visit, check, make_extra=make_extra, on_dispatch=on_dispatch, children=children, sig={"filters": fsig})


# ---------------------------------------------------------------------------
class _Hang(Exception):
    pass


def _alarm(signum, frame):
    raise _Hang()


def run_solvers(res, spec):
    check = "solver_terminates_and_follows_rule"
    from job_shop_lib.dispatching import HistoryObserver, Dispatcher
    from job_shop_lib.dispatching.rules import DispatchingRuleSolver

    ref = Ref(spec)
    inst = impl.mk_instance(spec)
    old = signal.signal(signal.SIGVTALRM, _alarm)
    try:
        for rule in RULES:
            for chooser in ("first", "random"):
                for filters in CFG6:
                    flt = None if not filters else (filters[0] if len(filters) == 1 else list(filters))
                    sig = {"rule": rule, "chooser": chooser, "filters": "+".join(filters) if filters else "none"}
                    common = dict(spec=spec, rule=rule, chooser=chooser, filters=filters)

                    def run(ch):
                        solver = DispatchingRuleSolver(rule, chooser, flt)
                        d = Dispatcher(inst, ready_operations_filter=solver.ready_operations_filter)
                        ho = HistoryObserver(d)
                        steps = []
                        with owned_random(ch):
                            signal.setitimer(signal.ITIMER_VIRTUAL, 20.0)
                            try:
                                # step by step so that the pre-state is known
                                for _ in range(ref.N + 1):
                                    if d.schedule.is_complete():
                                        break
                                    avail = [o.operation_id for o in d.available_operations()]
                                    solver.step(d)
                                    steps.append((avail, impl.snap_sop(ho.history[-1])))
                                complete = d.schedule.is_complete()
                                # and the solver's own loop on a fresh dispatcher
                            except _Hang:
                                return ("hang", steps)
                            except Exception as exc:  # noqa: BLE001
                                return ("raised", type(exc).__name__, repr(exc)[:200], steps)
                            finally:
                                signal.setitimer(signal.ITIMER_VIRTUAL, 0)
                        return ("ok", complete, impl.snap_schedule(d.schedule), steps)

                    leaves = 0
                    for choices, out in explore_choices(run, max_leaves=20000):
                        if choices == "CAP":
                            res.add("caps_hit")
                            break
                        leaves += 1
                        res.add("evaluations")
                        res.add("traces")
                        res.add("transitions", ref.N)
                        if ref.J >= 2:
                            res.add("nontrivial")
                        if out[0] == "hang":
                            res.violation(check, "solver-does-not-terminate", sig=sig, answers=choices, **common)
                            continue
                        if out[0] == "raised":
                            res.violation(check, f"solver-raised:{out[1]}", sig=sig, error=out[2], answers=choices, steps=out[3], **common)
                            continue
                        _, complete, snap, steps = out
                        if not complete or len(steps) != ref.N:
                            res.violation(check, "not-complete-after-one-step-per-operation", sig=sig, steps=len(steps), answers=choices, **common)
                            continue
                        errs = feasibility_errors(ref, snap)
                        if errs:
                            res.violation(check, "infeasible-schedule", sig=sig, errors=errs[:4], answers=choices, **common)
                        hist = ()
                        for avail, (oid, start, m) in steps:
                            st = ref.state(hist)
                            if oid not in avail:
                                res.violation(check, "selected-operation-not-available", sig=sig, history=hist, selected=oid, available=avail, **common)
                                break
                            if rule != "random" and not is_best(oid, key_values(rule, ref, st, filters, avail)):
                                res.violation(check, "selected-operation-not-best", sig=sig, history=hist, selected=oid, available=avail, **common)
                                break
                            if m not in ref.ops[oid][2]:
                                res.violation(check, "machine-chooser-picked-ineligible-machine", sig=sig, history=hist, selected=oid, machine=m, **common)
                                break
                            hist = hist + ((ref.ops[oid][0], m),)
                    # the solver's own loop (solve) must agree for deterministic configurations
                    if rule != "random" and chooser == "first":
                        signal.setitimer(signal.ITIMER_VIRTUAL, 20.0)
                        try:
                            S = DispatchingRuleSolver(rule, chooser, flt).solve(inst)
                            signal.setitimer(signal.ITIMER_VIRTUAL, 0)
                            if not S.is_complete() or feasibility_errors(ref, impl.snap_schedule(S)):
                                res.violation(check, "solve-result-incomplete-or-infeasible", sig=sig, **common)
                            elif impl.snap_schedule(S) != snap:
                                res.violation(check, "solve-differs-from-step-by-step-run", sig=sig, **common)
                            # solve() on a dispatcher the caller has already advanced
                            # (documented optional argument): from every prefix of the
                            # solver's own run it completes the same schedule
                            for k in sorted({1, ref.N // 2, ref.N - 1, ref.N}):
                                solver = DispatchingRuleSolver(rule, chooser, flt)
                                d = Dispatcher(inst, ready_operations_filter=solver.ready_operations_filter)
                                for _, (oid, _, m) in steps[:k]:
                                    d.dispatch(inst.jobs[ref.ops[oid][0]][ref.ops[oid][1]], m)
                                signal.setitimer(signal.ITIMER_VIRTUAL, 20.0)
                                S2 = solver.solve(inst, d)
                                signal.setitimer(signal.ITIMER_VIRTUAL, 0)
                                res.add("transitions", ref.N)
                                if not S2.is_complete() or impl.snap_schedule(S2) != snap:
                                    res.violation(check, "solve-from-advanced-dispatcher-differs", sig=sig, dispatched_before=k, **common)
                                    break
                        except _Hang:
                            res.violation(check, "solver-does-not-terminate", sig=sig, via="solve", **common)
                        except Exception as exc:  # noqa: BLE001
                            signal.setitimer(signal.ITIMER_VIRTUAL, 0)
                            res.violation(check, f"solver-raised:{type(exc).__name__}", sig=sig, via="solve", error=repr(exc)[:200], **common)
        res.add("states")
    finally:
        signal.setitimer(signal.ITIMER_VIRTUAL, 0)
        signal.signal(signal.SIGVTALRM, old)


# ---------------------------------------------------------------------------
def run_metadata(res, spec):
    check = "solver_metadata"
    from job_shop_lib.dispatching.rules import DispatchingRuleSolver
    from job_shop_lib import BaseSolver

    inst = impl.mk_instance(spec)

    class MySolver(BaseSolver):
        def solve(self, instance):
            return DispatchingRuleSolver("first_come_first_served").solve(instance)

    increments = (0.0, 1e-6, 3.5)
    for solver in (DispatchingRuleSolver(), DispatchingRuleSolver("shortest_processing_time", "random", None), MySolver()):

        def run(ch):
            now = [100.0]
            calls = []

            def fake_perf_counter():
                now[0] += increments[ch.choose(len(increments), "perf_counter")]
                calls.append(now[0])
                return now[0]

            saved = _time_module.perf_counter
            _time_module.perf_counter = fake_perf_counter
            try:
                with owned_random(Chooser(())):
                    S = solver(inst)
            finally:
                _time_module.perf_counter = saved
            return S.metadata, calls

        for choices, (meta, calls) in explore_choices(run):
            res.add("evaluations")
            res.add("nontrivial")
            res.add("transitions")
            res.add("traces")
            sig = {"solver": type(solver).__name__}
            common = dict(spec=spec, clock_answers=choices, clock_readings=calls, metadata={k: repr(v) for k, v in meta.items()})
            if meta.get("solved_by") != type(solver).__name__:
                res.violation(check, "solved_by-wrong", sig=sig, **common)
            et = meta.get("elapsed_time")
            if et is None:
                res.violation(check, "elapsed_time-missing", sig=sig, **common)
            elif et < 0:
                res.violation(check, "elapsed_time-negative", sig=sig, **common)
            elif len(calls) >= 2 and abs(et - (calls[-1] - calls[0])) > 1e-9:
                res.violation(check, "elapsed_time-not-difference-of-clock-readings", sig=sig, **common)
    res.add("states")
    res.sample({"spec": spec, "clock_increments": increments, "solvers": ["DispatchingRuleSolver()", "DispatchingRuleSolver(spt, random, None)", "BaseSolver subclass"]})
