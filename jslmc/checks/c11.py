"""C11 - incremental features equal a from-scratch recomputation."""

from __future__ import annotations

import itertools

import numpy as np

from .. import families as F
from .. import impl
from ..core import Res
from ..refmodel import Ref
from ..reffeatures import expected
from . import _disp, _env

PROPERTY = "C11"
CHUNK = 8
RULE = (
    "Every dispatch history of every instance is executed on a real Dispatcher with the "
    "built-in feature observers subscribed from the start (all seven + composite; all seven "
    "restricted to one feature type; each type alone); after every dispatch every feature of "
    "every entity that still has work left is compared with the from-scratch reference "
    "definition, and the composite with the column-wise concatenation of its parts. With "
    "filters (positive durations): dominated, non-idle, default pair. Constructibility: every "
    "observer type x every non-empty subset of its supported feature types is constructed on "
    "every instance, followed by a second observer of the same class with another subset on the same dispatcher (distinct object, exactly the requested types). Case = one history prefix under one observer configuration; non-trivial "
    "= >= 2 steps involving >= 2 jobs."
)
ASSUMPTIONS = [
    "bounded to the listed instance families",
    "DurationObserver: an ongoing operation keeps the remaining duration measured at its own dispatch (pinned by the repository's golden test)",
    "machine-level durations / counts / completion flags only on non-flexible instances (property text)",
    "IsCompleted job/machine flag only required to be 0 while the entity has an unscheduled operation",
]
BOUNDS = {
    "quick": "K3 complete (configs: all, 3 single-feature-type, 7 alone; filters on positive instances); K4[seed%16::16] (config all); probes (config all); constructibility on K3, K4[seed%4::4], probes",
    "thorough": "K3, K4 complete, M3 small, NF5 slice, probes; constructibility on all of them",
}

FILTER_CFGS = [("dominated_operations",), ("non_idle_machines",), ("dominated_operations", "non_idle_machines")]


def cases(tier, seed):
    out = []
    for s in F.K3():
        out.append(("features", s, "full"))
        out.append(("construct", s))
    if tier == "quick":
        for s in F.sliced(F.K4(), seed % 16, 16):
            out.append(("features", s, "all"))
        for s in F.sliced(F.K4(), seed % 4, 4):
            out.append(("construct", s))
        for s in F.P_ALL:
            out.append(("features", s, "all"))
            out.append(("construct", s))
    else:
        for s in F.K4():
            out.append(("features", s, "all+filters"))
            out.append(("construct", s))
        for s in F.M3_small():
            out.append(("features", s, "all+filters"))
            out.append(("construct", s))
        for s in F.sliced(F.NF5(), seed % 8, 8):
            out.append(("features", s, "all"))
            out.append(("construct", s))
        for s in F.P_ALL:
            out.append(("features", s, "all+filters"))
            out.append(("construct", s))
    return out


def heavy(case):
    return case[0] == "features" and F.n_ops(case[1]) >= 5


def FT(name):
    from job_shop_lib.dispatching.feature_observers import FeatureType

    return FeatureType(name)


def make_observers(d, config):
    """config: list of (otype, ftypes or None). Returns list of (otype, obs)."""
    from job_shop_lib.dispatching.feature_observers import (
        FeatureObserverType,
        feature_observer_factory,
    )

    out = []
    for otype, ftypes in config:
        kwargs = {}
        if ftypes is not None:
            kwargs["feature_types"] = [FT(f) for f in ftypes]
        out.append((otype, feature_observer_factory(FeatureObserverType(otype), dispatcher=d, **kwargs)))
    return out


def configs_for(mode, ref):
    cfgs = [("all", [(o, None) for o in _env.OBSERVER_TYPES], True)]
    if mode == "full":
        for ft in _env.FEATURE_TYPES:
            cfgs.append((f"only-{ft}", [(o, (ft,)) for o in _env.OBSERVER_TYPES if ft in _env.SUPPORTED[o]], True))
        for o in _env.OBSERVER_TYPES:
            cfgs.append((f"alone-{o}", [(o, None)], False))
    return cfgs


def run_case(case) -> Res:
    res = Res()
    if case[0] == "construct":
        run_construct(res, case[1])
        return res
    _, spec, mode = case
    ref = Ref(spec)
    for cname, config, with_composite in configs_for(mode, ref):
        run_features(res, spec, (), cname, config, with_composite)
    if mode in ("full", "all+filters") and ref.positive:
        cname, config, wc = configs_for("all", ref)[0]
        for filters in FILTER_CFGS:
            run_features(res, spec, filters, cname, config, wc)
    return res


def run_construct(res, spec):
    check = "observer_constructible"
    from job_shop_lib.dispatching.feature_observers import (
        FeatureObserverType,
        feature_observer_factory,
        CompositeFeatureObserver,
    )

    ref = Ref(spec)
    inst = impl.mk_instance(spec)
    sizes = {"operations": ref.N, "machines": ref.M, "jobs": ref.J}
    for otype in _env.OBSERVER_TYPES:
        sup = _env.SUPPORTED[otype]
        subsets = [None] + [c for r in range(1, len(sup) + 1) for c in itertools.combinations(sup, r)]
        for sub in subsets:
            res.add("evaluations")
            res.add("transitions")
            if ref.N >= 2:
                res.add("nontrivial")
            d = impl.mk_dispatcher(inst, ())
            kwargs = {} if sub is None else {"feature_types": [FT(f) for f in sub]}
            sig = {"observer": otype}
            try:
                obs = feature_observer_factory(FeatureObserverType(otype), dispatcher=d, **kwargs)
            except Exception as exc:  # noqa: BLE001
                res.violation(check, f"constructor-raised:{type(exc).__name__}", sig=sig, spec=spec, observer=otype, feature_types=sub, error=repr(exc)[:300])
                continue
            want_types = set(sub if sub is not None else sup)
            got_types = {ft.value for ft in obs.features}
            if got_types != want_types:
                res.violation(check, "wrong-feature-types", sig=sig, spec=spec, observer=otype, feature_types=sub, observed=sorted(got_types))
            for ft, m in obs.features.items():
                if tuple(m.shape) != (sizes[ft.value], 1):
                    res.violation(check, "wrong-shape", sig=sig, spec=spec, observer=otype, feature_type=ft.value, shape=tuple(m.shape))
            # a second observer of the same class with another feature-type
            # subset on the SAME dispatcher is a distinct observer with exactly
            # the requested types (feature observers are not singletons)
            if sub is not None and len(sup) > 1:
                other_types = [f for f in sup if f not in sub] or [sup[0]]
                try:
                    obs2 = feature_observer_factory(FeatureObserverType(otype), dispatcher=d, feature_types=[FT(f) for f in other_types])
                    if obs2 is obs or {ft.value for ft in obs2.features} != set(other_types):
                        res.violation(check, "second-observer-of-same-class-not-independent", sig=sig, spec=spec, observer=otype, first=sub, second=other_types, observed=sorted(ft.value for ft in obs2.features))
                except Exception as exc:  # noqa: BLE001
                    res.violation(check, f"second-observer-of-same-class-raised:{type(exc).__name__}", sig=sig, spec=spec, observer=otype, first=sub, second=other_types, error=repr(exc)[:200])
            try:
                # composite over everything subscribed (the observer and the
                # dependencies it created itself): one column per part
                parts = [o for o in d.subscribers if isinstance(getattr(o, "features", None), dict)]
                comp = CompositeFeatureObserver(d)
                for ft, m in comp.features.items():
                    ncols = sum(o.features[ft].shape[1] for o in parts if ft in o.features)
                    if tuple(m.shape) != (sizes[ft.value], ncols):
                        res.violation(check, "composite-wrong-shape", sig=sig, spec=spec, observer=otype, feature_type=ft.value, shape=tuple(m.shape))
                    # the derived views of the same matrices
                    if tuple(comp.feature_dimensions[ft]) != tuple(m.shape) or len(comp.column_names[ft]) != m.shape[1]:
                        res.violation(check, "composite-dimensions-or-column-names-differ-from-matrix", sig=sig, spec=spec, observer=otype, feature_type=ft.value, shape=tuple(m.shape), dimensions=tuple(comp.feature_dimensions[ft]), columns=list(comp.column_names[ft]))
                    if sub is not None:
                        continue  # (data frames once per observer type: they are slow to build)
                    frame = comp.features_as_dataframe[ft]
                    if list(frame.columns) != list(comp.column_names[ft]) or frame.to_numpy().tolist() != m.tolist():
                        res.violation(check, "composite-dataframe-differs-from-matrix", sig=sig, spec=spec, observer=otype, feature_type=ft.value)
                for o in parts:
                    dims = o.feature_dimensions
                    for ft, m in o.features.items():
                        if tuple(dims[ft]) != tuple(m.shape) or o.feature_sizes[ft] != m.shape[1]:
                            res.violation(check, "feature_dimensions-or-sizes-differ-from-matrix", sig=sig, spec=spec, observer=type(o).__name__, feature_type=ft.value, shape=tuple(m.shape))
            except Exception as exc:  # noqa: BLE001
                res.violation(check, f"composite-constructor-raised:{type(exc).__name__}", sig=sig, spec=spec, observer=otype, feature_types=sub, error=repr(exc)[:300])
    res.add("states")


def run_features(res, spec, filters, cname, config, with_composite):
    check = "features_match_reference"
    fsig = "+".join(filters) if filters else "none"
    broken = set()

    def make_extra(inst, d):
        from job_shop_lib.dispatching.feature_observers import CompositeFeatureObserver

        observers = []
        for otype, ftypes in config:
            if otype in broken:
                continue
            try:
                observers.extend(make_observers(d, [(otype, ftypes)]))
            except Exception as exc:  # noqa: BLE001  (reported by the constructibility case)
                broken.add(otype)
                res.note(f"skipped-unconstructible:{otype}:{type(exc).__name__}")
        comp = None
        if with_composite:
            comp = CompositeFeatureObserver(d, feature_observers=[o for _, o in observers])
        return observers, comp

    def visit(hist, live, parent_obs, ref):
        observers, comp = live.extra
        st = ref.state(hist)
        for otype, obs in observers:
            for ft, matrix in obs.features.items():
                ftn = ft.value
                if "dominated_operations" in filters and not ref.positive:
                    continue
                want = expected(otype, ftn, st, filters, ref)
                sig = {"observer": otype, "feature_type": ftn, "filters": fsig}
                m = np.asarray(matrix)
                n_ent = {"operations": ref.N, "machines": ref.M, "jobs": ref.J}[ftn]
                if m.shape != (n_ent, 1):
                    res.violation(check, "wrong-shape", sig=sig, spec=spec, filters=filters, config=cname, history=hist, shape=tuple(m.shape))
                    continue
                bad = {e: (float(m[e, 0]), v) for e, v in want.items() if float(m[e, 0]) != v}
                if bad:
                    res.violation(
                        check, "value-differs", sig=sig, spec=spec, filters=filters, config=cname,
                        history=hist, entity_observed_expected=bad, features=m[:, 0].tolist(),
                    )
        if comp is not None:
            for ft in {ft for _, o in observers for ft in o.features}:
                parts = [o.features[ft] for _, o in observers if ft in o.features]
                names = [type(o).__name__.replace("Observer", "") for _, o in observers if ft in o.features]
                want = np.concatenate(parts, axis=1)
                sig = {"observer": "composite", "feature_type": ft.value, "filters": fsig}
                got = comp.features.get(ft)
                if got is None or got.shape != want.shape or not np.array_equal(got, want, equal_nan=True):
                    res.violation(check, "composite-differs-from-concatenation", sig=sig, spec=spec, filters=filters, config=cname, history=hist, observed=None if got is None else got.tolist(), expected=want.tolist())
                if list(comp.column_names[ft]) != names:
                    res.violation(check, "composite-column-names", sig=sig, spec=spec, config=cname, history=hist, observed=list(comp.column_names[ft]), expected=names)
            extra_types = set(comp.features) - {ft for _, o in observers for ft in o.features}
            if extra_types:
                res.violation(check, "composite-extra-feature-types", sig={"observer": "composite"}, spec=spec, config=cname, history=hist, extra=[t.value for t in extra_types])
        if len(hist) == ref.N and ref.N >= 3 and _disp.interleaves(hist) and cname == "all" and not filters:
            res.sample({"spec": spec, "history": hist, "config": cname, "example_expected": {o: expected(o, "operations", st, filters, ref) for o in ("earliest_start_time", "duration")}})
        return None

    _disp.explore(res, spec, filters, visit, check, make_extra=make_extra, sig={"filters": fsig, "config": cname})
