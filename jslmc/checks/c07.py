"""C07 - ready-operation filters prune soundly and never deadlock."""

from __future__ import annotations

import itertools

from .. import families as F
from .. import impl
from ..core import Res
from ..refmodel import Ref, FILTERS, DOM, filter_configs, nonempty_sublists
from . import _disp

PROPERTY = "C07"
CHUNK = 16
RULE = (
    "For every distinct reachable state (all unfiltered dispatch histories, real Dispatcher) "
    "x every non-empty order-preserving sub-list of the ready operations x every filter "
    "composition, the real filter (called directly, through "
    "create_composite_operation_filter and through ready_operations_filter_factory with "
    "names / enum members / callables) must return a non-empty sub-list (identity, order, no "
    "duplicates) equal to the documented criterion composed left to right. Separately the "
    "*filtered* history tree (children = available_operations()) is walked: every "
    "non-complete node must have a child. Case = (state, sub-list, composition) or one "
    "node of a filtered tree; non-trivial = state reached by >= 1 dispatch and sub-list or "
    "composition of length >= 2."
)
ASSUMPTIONS = [
    "bounded to the listed instance families",
    "dominated-operations criterion is asserted only when every operation of the input list has positive duration (zero-duration shortcut: only sub-list + non-empty)",
]
BOUNDS = {
    "quick": "K3 complete, K4[seed%16::16], small probes: 16 compositions (singles + ordered pairs); large probes: singles + default pair; filtered trees for the same configurations",
    "thorough": "K3: all 64 ordered subsets; K4 complete and M3: 16 compositions; probes",
}

CFG16 = [c for c in filter_configs(2) if c]
ALL64 = [c for r in range(1, 5) for c in itertools.permutations(FILTERS, r)]
SINGLES = [(f,) for f in FILTERS] + [("dominated_operations", "non_idle_machines")]


def cases(tier, seed):
    out = []
    if tier == "quick":
        out += [("filters", s, "16") for s in F.K3()]
        out += [("filters", s, "16") for s in F.sliced(F.K4(), seed % 16, 16)]
        out += [("filters", s, "16") for s in F.P_SMALL + F.P_HUGE]
        out += [("filters", s, "5") for s in F.P_LARGE]
        out += [("filters", s, "5") for s in F.sliced(F.K5(), seed % 128, 128)]
    else:
        out += [("filters", s, "64") for s in F.K3()]
        out += [("filters", s, "16") for s in F.K4()]
        out += [("filters", s, "16") for s in F.M3()]
        out += [("filters", s, "16") for s in F.P_SMALL + F.P_HUGE]
        out += [("filters", s, "5") for s in F.P_LARGE]
    return out


def heavy(case):
    return F.n_ops(case[1]) >= 5


def _variants(names):
    """Different public ways to obtain the same composition (real objects)."""
    from job_shop_lib.dispatching import (
        create_composite_operation_filter,
        ready_operations_filter_factory,
        ReadyOperationsFilterType,
    )

    out = []
    if len(names) == 1:
        n = names[0]
        out.append(("direct", impl.filter_func(n)))
        out.append(("factory-str", ready_operations_filter_factory(n)))
        out.append(("factory-enum", ready_operations_filter_factory(ReadyOperationsFilterType(n))))
        out.append(("factory-callable", ready_operations_filter_factory(impl.filter_func(n))))
        out.append(("composite-of-one", create_composite_operation_filter([n])))
    else:
        out.append(("composite-str", create_composite_operation_filter(list(names))))
        out.append(
            (
                "composite-mixed",
                create_composite_operation_filter(
                    [
                        ReadyOperationsFilterType(n) if i % 2 == 0 else impl.filter_func(n)
                        for i, n in enumerate(names)
                    ]
                ),
            )
        )
        funcs = [impl.filter_func(n) for n in names]

        def chained(d, ops, funcs=funcs):
            for f in funcs:
                ops = f(d, ops)
            return ops

        out.append(("manual-chain", chained))
    return out


_VAR_CACHE = {}


def variants(names):
    if names not in _VAR_CACHE:
        _VAR_CACHE[names] = _variants(names)
    return _VAR_CACHE[names]


def run_case(case) -> Res:
    _, spec, which = case
    res = Res()
    cfgs = {"16": CFG16, "64": ALL64, "5": SINGLES}[which]
    sublists_check(res, spec, cfgs)
    for filters in cfgs:
        filtered_tree(res, spec, filters)
    return res


def sublists_check(res, spec, cfgs):
    check = "filter_criterion"
    seen = set()

    def visit(hist, live, parent_obs, ref):
        st = ref.state(hist)
        key = st.canon()
        if key in seen:
            return None
        seen.add(key)
        d, inst = live.d, live.inst
        ready = st.ready()
        op_obj = {o: inst.jobs[ref.ops[o][0]][ref.ops[o][1]] for o in ready}
        for L in nonempty_sublists(ready):
            L_objs = [op_obj[o] for o in L]
            has_zero = any(ref.ops[o][3] == 0 for o in L)
            for names in cfgs:
                pinned = not (has_zero and DOM in names)
                want = st.apply_filters(names, L) if pinned else None
                for vname, f in variants(names):
                    arg = list(L_objs)
                    out = f(d, arg)
                    res.add("evaluations")
                    res.add("transitions")
                    if hist and (len(L) >= 2 or len(names) >= 2):
                        res.add("nontrivial")
                    sig = {"filters": "+".join(names), "via": vname}
                    common = dict(spec=spec, history=hist, input=L, filters=names, via=vname)
                    if arg != L_objs:
                        res.violation(check, "input-list-mutated", sig=sig, **common)
                    if not isinstance(out, list):
                        res.violation(check, "not-a-list", sig=sig, observed=repr(out)[:100], **common)
                        continue
                    # sub-list by identity, same order, no duplicates, no foreign
                    pos = []
                    ok = True
                    for o in out:
                        idx = [i for i, x in enumerate(L_objs) if x is o]
                        if not idx:
                            ok = False
                            break
                        pos.append(idx[0])
                    got = [L[i] for i in pos] if ok else None
                    if not ok:
                        res.violation(check, "foreign-operation-returned", sig=sig, observed=[getattr(o, "operation_id", repr(o)) for o in out], **common)
                        continue
                    if any(b <= a for a, b in zip(pos, pos[1:])):
                        res.violation(check, "not-an-ordered-sublist", sig=sig, observed=got, **common)
                    if not out:
                        res.violation(check, "empty-result", sig=sig, **common)
                    if want is not None and got != want:
                        res.violation(check, "criterion-differs", sig=sig, observed=got, expected=want, **common)
        if len(ready) >= 2 and len(hist) >= 1:
            res.sample({"spec": spec, "history": hist, "ready": ready, "example": {"+".join(n): st.apply_filters(n, ready) for n in cfgs[:4] if not (DOM in n and not ref.positive)}})
        return None

    _disp.explore(res, spec, (), visit, check)


def filtered_tree(res, spec, filters):
    """Walk the tree whose children are the available (filtered) operations."""
    check = "filtered_tree_deadlock_free"
    sig = {"filters": "+".join(filters)}
    stash = {}

    def visit(hist, live, parent_obs, ref):
        d = live.d
        st = ref.state(hist)
        avail = [o.operation_id for o in d.available_operations()]
        ready = st.ready()
        if len(hist) < ref.N and not avail:
            res.violation(check, "deadlock-no-available-operation", sig=sig, spec=spec, filters=filters, history=hist, ready=ready)
        if any(o not in ready for o in avail) or len(set(avail)) != len(avail):
            res.violation(check, "available-not-subset-of-ready", sig=sig, spec=spec, filters=filters, history=hist, ready=ready, available=avail)
            avail = [o for o in dict.fromkeys(avail) if o in ready]
        pinned = ref.positive or DOM not in filters
        if pinned and avail != st.available(filters):
            res.violation(check, "available-differs-from-criterion", sig=sig, spec=spec, filters=filters, history=hist, observed=avail, expected=st.available(filters))
        stash[hist] = [(ref.ops[o][0], m) for o in avail for m in ref.ops[o][2]]
        if len(hist) == ref.N:
            res.aux_add("complete_filtered", 1)
        return None

    def children(hist):
        return stash.get(hist, [])

    # one dispatcher for the whole tree (reset + replay), as a tree search uses it
    _disp.explore(res, spec, filters, visit, check, children=children, sig=sig, rebuild="reset")
