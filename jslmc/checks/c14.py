"""C14 - instances and schedules survive serialisation; views match; immutability."""

from __future__ import annotations

import itertools
import json
import math
import os
import signal
import tempfile

import numpy as np

from .. import families as F
from .. import impl
from ..core import Res
from ..refmodel import Ref, feasibility_errors
from . import _env, _snapall

PROPERTY = "C14"
CHUNK = 8
RULE = (
    "E4/E1: (views) for every instance of the families every derived view is compared with "
    "its definition; (round trips) to_dict -> from_matrices, the same through JSON text, and "
    "(non-flexible) Taillard text with/without comment lines -> from_taillard_file; "
    "(schedules) for every non-flexible instance and every complete dispatch history, "
    "from_job_sequences and from_dict(json(to_dict)) must reproduce the identical schedule; "
    "(sequences) every tuple of per-machine permutations of the right job multisets: accepted "
    "<=> the union of job chains and machine chains is acyclic (own DFS), accepted => complete, "
    "feasible, sequences reproduced, rejected => ValidationError, under a 10 s CPU-time budget per call (hang = "
    "violation); (from_matrices) nested machine lists for single-machine operations are accepted and later edits of the caller's matrices leave the views equal to their definition; (immutability) a content fingerprint of the instance is taken before and "
    "after dispatching with all observers, all rule solvers, CP-SAT, 5 graph builders, an "
    "environment episode and serialisation. Case = one instance (views/round trip), one "
    "(instance, history) or one (instance, permutation tuple); non-trivial = >= 2 jobs and >= 3 "
    "operations."
)
ASSUMPTIONS = [
    "bounded to the listed families",
    "Taillard text is written by the harness in the documented layout (header line, one line per job of machine/duration pairs)",
]
BOUNDS = {
    "quick": "views+round trips: K3, K4[seed%4::4], M3 small, probes, K3[seed%4::4] with every positive duration shifted beyond 2**24 (thorough: all of K3), 8 bundled benchmark instances as loaded (thorough: all 162); schedules: K3 NF + K4 NF[seed%4::4] all complete histories; sequences: K3 NF, K4 NF[seed%4::4], 2x2/recirculation probes - all permutation tuples; immutability: K3[seed%8::8] + probes",
    "thorough": "views: K3, K4, M3, NF5 slice, probes; schedules/sequences: K3 NF, K4 NF, NF5 slice (<= 20000 tuples per instance); immutability: K3, K4[::16], probes",
}


def cases(tier, seed):
    out = []
    k4 = list(F.sliced(F.K4(), seed % 4, 4)) if tier == "quick" else list(F.K4())
    for s in itertools.chain(F.K3(), k4, F.M3_small(), F.P_ALL):
        out.append(("views", s))
    # the same small shapes with durations beyond float32's exact integers
    # (2**24): the integer-valued views must stay exact whatever the padded
    # float32 arrays can hold
    out += [("views", big(s)) for s in (F.sliced(F.K3(), seed % 4, 4) if tier == "quick" else F.K3())]
    k4nf = list(F.sliced(F.K4_nf(), seed % 4, 4)) if tier == "quick" else list(F.K4_nf())
    nf = list(F.K3_nf()) + k4nf + [p for p in F.P_ALL if not F.is_flexible(p) and F.n_ops(p) <= 6]
    if tier != "quick":
        nf += list(F.sliced(F.NF5(), seed % 8, 8))
        out += [("views", s) for s in F.sliced(F.NF5(), seed % 8, 8)]
    for s in nf:
        out.append(("schedules", s))
        out.append(("sequences", s))
    imm = list(F.sliced(F.K3(), seed % 8, 8)) + F.P_SMALL + [F.P_EXAMPLE]
    if tier != "quick":
        imm = list(F.K3()) + list(F.sliced(F.K4(), seed % 16, 16)) + F.P_ALL
    for s in imm:
        out.append(("immutable", s))
    bench = ["ft06", "la01", "abz5", "orb01", "swv01", "yn1", "ta01", "ta41"]
    if tier != "quick":
        bench = BENCHMARKS
    for i in range(0, len(bench), 8):
        out.append(("benchmarks", tuple(bench[i : i + 8])))
    return out


def big(spec):
    return tuple(tuple((ms, d + 2**24 + 1 if d > 0 else 0) for ms, d in job) for job in spec)


BENCHMARKS = (
    ["abz%d" % i for i in range(5, 10)]
    + ["ft06", "ft10", "ft20"]
    + ["la%02d" % i for i in range(1, 41)]
    + ["orb%02d" % i for i in range(1, 11)]
    + ["swv%02d" % i for i in range(1, 21)]
    + ["yn%d" % i for i in range(1, 5)]
    + ["ta%02d" % i for i in range(1, 81)]
)


def heavy(case):
    return case[0] == "benchmarks" or F.n_ops(case[1]) >= 5


def run_case(case) -> Res:
    res = Res()
    kind, spec = case
    {"views": run_views, "schedules": run_schedules, "sequences": run_sequences, "immutable": run_immutable, "benchmarks": run_benchmarks}[kind](res, spec)
    return res


# ---------------------------------------------------------------------------
def content(inst):
    return tuple(
        tuple((tuple(o.machines), o.duration, o.job_id, o.position_in_job, o.operation_id) for o in job)
        for job in inst.jobs
    )


def expected_content(spec):
    out = []
    oid = 0
    for j, job in enumerate(spec):
        row = []
        for p, (ms, d) in enumerate(job):
            row.append((tuple(ms), d, j, p, oid))
            oid += 1
        out.append(tuple(row))
    return tuple(out)


def nan_eq(a, b):
    return a.shape == b.shape and a.dtype == b.dtype and np.array_equal(a, b, equal_nan=True)


def run_benchmarks(res, names):
    """The bundled benchmark instances (a fixed list, not a space): the loaded
    objects' views and round trips, through the same oracle."""
    from job_shop_lib.benchmarking import load_benchmark_instance

    for name in names:
        inst = load_benchmark_instance(name)
        spec = impl.spec_of_instance(inst)
        run_views(res, spec, inst=inst, name=name, meta=dict(inst.metadata))


def run_views(res, spec, inst=None, name="inst-name", meta=None):
    check = "views_match_definition"
    ref = Ref(spec)
    res.add("evaluations")
    res.add("states")
    if ref.J >= 2 and ref.N >= 3:
        res.add("nontrivial")
    if meta is None:
        meta = {"k": [1, 2], "lower_bound": 3}
    if inst is None:
        inst = impl.mk_instance(spec, name=name, **meta)

    def bad(kind, **kw):
        res.violation(check, kind, spec=spec, **kw)

    if content(inst) != expected_content(spec):
        bad("operation-attributes", observed=content(inst), expected=expected_content(spec))
    flexible = ref.flexible
    maxlen = max(ref.jlen)
    views = {
        "num_jobs": (inst.num_jobs, ref.J),
        "num_machines": (inst.num_machines, ref.M),
        "num_operations": (inst.num_operations, ref.N),
        "is_flexible": (inst.is_flexible, flexible),
        "durations_matrix": (inst.durations_matrix, [[d for _, d in job] for job in spec]),
        "machines_matrix": (
            inst.machines_matrix,
            [[list(ms) for ms, _ in job] for job in spec] if flexible else [[ms[0] for ms, _ in job] for job in spec],
        ),
        "operations_by_machine": (
            [[o.operation_id for o in ml] for ml in inst.operations_by_machine],
            [[o for o in range(ref.N) if m in ref.ops[o][2]] for m in range(ref.M)],
        ),
        "max_duration": (inst.max_duration, max(d for job in spec for _, d in job)),
        "max_duration_per_job": (list(inst.max_duration_per_job), [max(d for _, d in job) for job in spec]),
        "max_duration_per_machine": (
            list(inst.max_duration_per_machine),
            [max([ref.ops[o][3] for o in range(ref.N) if m in ref.ops[o][2]], default=0) for m in range(ref.M)],
        ),
        "job_durations": (list(inst.job_durations), [sum(d for _, d in job) for job in spec]),
        "machine_loads": (
            list(inst.machine_loads),
            [sum(ref.ops[o][3] for o in range(ref.N) if m in ref.ops[o][2]) for m in range(ref.M)],
        ),
        "total_duration": (inst.total_duration, sum(d for job in spec for _, d in job)),
    }
    for vname, (got, want) in views.items():
        res.add("transitions")
        if got != want:
            bad(f"view:{vname}", observed=got, expected=want)
    dm = np.full((ref.J, maxlen), np.nan, dtype=np.float32)
    for j, job in enumerate(spec):
        dm[j, : len(job)] = [d for _, d in job]
    if not nan_eq(np.asarray(inst.durations_matrix_array), dm):
        bad("view:durations_matrix_array", observed=np.asarray(inst.durations_matrix_array).tolist(), expected=dm.tolist())
    if flexible:
        width = max(len(ms) for job in spec for ms, _ in job)
        mm = np.full((ref.J, maxlen, width), np.nan, dtype=np.float32)
        for j, job in enumerate(spec):
            for p, (ms, _) in enumerate(job):
                mm[j, p, : len(ms)] = ms
    else:
        mm = np.full((ref.J, maxlen), np.nan, dtype=np.float32)
        for j, job in enumerate(spec):
            mm[j, : len(job)] = [ms[0] for ms, _ in job]
    if not nan_eq(np.asarray(inst.machines_matrix_array), mm):
        bad("view:machines_matrix_array", observed=np.asarray(inst.machines_matrix_array).tolist(), expected=mm.tolist())

    # second reading, after every other view has been materialised: a view
    # must not be disturbed by reading another one
    if not nan_eq(np.asarray(inst.durations_matrix_array), dm):
        bad("view:durations_matrix_array(second-reading)", observed=np.asarray(inst.durations_matrix_array).tolist(), expected=dm.tolist())
    if not nan_eq(np.asarray(inst.machines_matrix_array), mm):
        bad("view:machines_matrix_array(second-reading)", observed=np.asarray(inst.machines_matrix_array).tolist(), expected=mm.tolist())
    if inst.durations_matrix != [[d for _, d in job] for job in spec] or [[o.operation_id for o in ml] for ml in inst.operations_by_machine] != views["operations_by_machine"][1]:
        bad("view:lists(second-reading)")

    # ---- round trips -----------------------------------------------------
    from job_shop_lib import JobShopInstance

    def same(other, how, name=name, metadata=meta):
        res.add("transitions")
        if content(other) != expected_content(spec):
            bad(f"roundtrip:{how}:operations", observed=content(other), expected=expected_content(spec))
        if other.name != name:
            bad(f"roundtrip:{how}:name", observed=other.name, expected=name)
        if other.metadata != metadata:
            bad(f"roundtrip:{how}:metadata", observed=repr(other.metadata), expected=repr(metadata))

    d = inst.to_dict()
    same(JobShopInstance.from_matrices(**d), "dict")
    same(JobShopInstance.from_matrices(**json.loads(json.dumps(d))), "json")
    # the caller's matrices must not be aliased, and the (documented) nested
    # machines format must work for single-machine operations too
    dur_in = [[dd for _, dd in job] for job in spec]
    mach_in = [[list(ms) for ms, _ in job] for job in spec]
    built = JobShopInstance.from_matrices(dur_in, mach_in, name=name, metadata=dict(meta))
    same(built, "from_matrices-nested-machine-lists")
    try:
        arr_m = np.asarray(built.machines_matrix_array)
        if arr_m.shape[:2] != (ref.J, maxlen):
            bad("from_matrices-nested:machines_matrix_array-shape", shape=tuple(arr_m.shape))
    except Exception as exc:  # noqa: BLE001
        bad(f"from_matrices-nested:machines_matrix_array-raised:{type(exc).__name__}", error=repr(exc)[:200])
    before = (repr(built.durations_matrix), repr(built.machines_matrix), content(built))
    # (the inner eligible-machine lists are handed to Operation as they are -
    # that is Operation's constructor contract and not touched here; the
    # matrices themselves are the caller's)
    dur_in[0][0] += 5
    dur_in[-1].append(7)
    mach_in[-1].append([0])
    mach_in[0][0] = [ref.M + 3]
    after = (repr(built.durations_matrix), repr(built.machines_matrix), content(built))
    if before != after:
        bad("from_matrices-aliases-the-callers-matrices", before=before[:2], after=after[:2])
    if not flexible:
        header = f"{ref.J} {ref.M}"
        rows = [" ".join(f"{ms[0]} {dd}" for ms, dd in job) for job in spec]
        with tempfile.TemporaryDirectory(prefix="jslmc-c14-") as tmp:
            p1 = os.path.join(tmp, "plain07.txt")
            with open(p1, "w") as f:
                f.write("\n".join([header] + rows) + "\n")
            same(JobShopInstance.from_taillard_file(p1), "taillard-plain", name="plain07", metadata={})
            p2 = os.path.join(tmp, "commented.dat")
            with open(p2, "w") as f:
                f.write("# a comment\n# another\n" + header + "\n# in between\n" + "\n".join(rows) + "\n")
            same(
                JobShopInstance.from_taillard_file(p2, name="given", lower_bound=3),
                "taillard-comments", name="given", metadata={"lower_bound": 3},
            )
    if ref.N >= 3 and ref.J >= 2 and flexible:
        res.sample({"spec": spec, "to_dict": d})


# ---------------------------------------------------------------------------
def job_sequences_of(st, ref):
    return [[ref.ops[o][0] for (o, _, _) in ml] for ml in st.sched]


def run_schedules(res, spec):
    check = "schedule_roundtrip"
    from job_shop_lib import Schedule

    ref = Ref(spec)
    inst = impl.mk_instance(spec)
    seen = set()
    for hist in ref.all_histories():
        st = ref.state(hist)
        key = st.canon()
        res.add("traces")
        if key in seen:
            continue
        seen.add(key)
        res.add("evaluations")
        if ref.J >= 2 and ref.N >= 3:
            res.add("nontrivial")
        d = impl.mk_dispatcher(inst)
        impl.replay(d, hist)
        res.add("transitions", len(hist))
        S = d.schedule
        S.metadata["note"] = {"k": 1}
        want = impl.snap_schedule(S)
        seqs = job_sequences_of(st, ref)
        try:
            R = Schedule.from_job_sequences(inst, [list(x) for x in seqs])
            if impl.snap_schedule(R) != want:
                res.violation(check, "from_job_sequences-differs", spec=spec, history=hist, sequences=seqs, observed=impl.snap_schedule(R), expected=want)
        except Exception as exc:  # noqa: BLE001
            res.violation(check, f"from_job_sequences-raised:{type(exc).__name__}", spec=spec, history=hist, sequences=seqs, error=repr(exc)[:200])
        td = S.to_dict()
        if td.get("job_sequences") != seqs:
            res.violation(check, "to_dict-job_sequences-wrong", spec=spec, history=hist, observed=td.get("job_sequences"), expected=seqs)
        try:
            R2 = Schedule.from_dict(**json.loads(json.dumps(td)))
            if impl.snap_schedule(R2) != want:
                res.violation(check, "from_dict-differs", spec=spec, history=hist, observed=impl.snap_schedule(R2), expected=want)
            if R2.metadata != {"note": {"k": 1}}:
                res.violation(check, "from_dict-metadata", spec=spec, history=hist, observed=repr(R2.metadata))
            if content(R2.instance) != expected_content(spec):
                res.violation(check, "from_dict-instance", spec=spec, history=hist)
            R3 = Schedule.from_dict(inst, td["job_sequences"], None)
            if impl.snap_schedule(R3) != want or R3.metadata != {}:
                res.violation(check, "from_dict-with-instance-object", spec=spec, history=hist)
        except Exception as exc:  # noqa: BLE001
            res.violation(check, f"from_dict-raised:{type(exc).__name__}", spec=spec, history=hist, error=repr(exc)[:200])
    res.add("states", len(seen))
    # a sibling instance with the SAME name but different durations, round
    # tripped in between: nothing may be remembered by name across calls
    sib_spec = tuple(tuple((ms, d + 1) for ms, d in job) for job in spec)
    sib_ref = Ref(sib_spec)
    sib = impl.mk_instance(sib_spec)
    first = next(ref.all_histories())
    for which_ref, which_inst, which_spec in ((sib_ref, sib, sib_spec), (ref, inst, spec), (sib_ref, sib, sib_spec)):
        d = impl.mk_dispatcher(which_inst)
        impl.replay(d, first)
        want = impl.snap_schedule(d.schedule)
        td = json.loads(json.dumps(d.schedule.to_dict()))
        try:
            R = Schedule.from_dict(**td)
            if impl.snap_schedule(R) != want or content(R.instance) != expected_content(which_spec):
                res.violation(check, "from_dict-differs-after-other-instance-with-same-name", spec=which_spec, other=spec if which_spec is sib_spec else sib_spec, history=first, observed=impl.snap_schedule(R), expected=want)
        except Exception as exc:  # noqa: BLE001
            res.violation(check, f"from_dict-raised-after-other-instance-with-same-name:{type(exc).__name__}", spec=which_spec, history=first, error=repr(exc)[:200])


# ---------------------------------------------------------------------------
class _Hang(Exception):
    pass


def _alarm(signum, frame):
    raise _Hang()


def multiset_permutations(items):
    return sorted(set(itertools.permutations(items)))


def acyclic(ref, seqs):
    """Own check: job chains + machine chains of the permutation tuple."""
    # k-th occurrence of job j on machine m -> k-th op of job j that runs on m
    succ = {o: set() for o in range(ref.N)}
    for j in range(ref.J):
        for p in range(ref.jlen[j] - 1):
            succ[ref.op_id[(j, p)]].add(ref.op_id[(j, p + 1)])
    for m, seq in enumerate(seqs):
        count = {}
        chain = []
        for j in seq:
            k = count.get(j, 0)
            count[j] = k + 1
            ops_jm = [ref.op_id[(j, p)] for p in range(ref.jlen[j]) if ref.jobs[j][p][0] == (m,)]
            chain.append(ops_jm[k])
        for a, b in zip(chain, chain[1:]):
            succ[a].add(b)
    state = {}

    def dfs(u):
        state[u] = 1
        for v in succ[u]:
            if state.get(v) == 1:
                return False
            if v not in state and not dfs(v):
                return False
        state[u] = 2
        return True

    return all(dfs(u) for u in range(ref.N) if u not in state)


def run_sequences(res, spec, cap=20000):
    check = "job_sequences_accepted_iff_acyclic"
    from job_shop_lib import Schedule

    ref = Ref(spec)
    inst = impl.mk_instance(spec)
    per_machine = []
    for m in range(ref.M):
        jobs_on_m = [ref.ops[o][0] for o in range(ref.N) if ref.ops[o][2] == (m,)]
        per_machine.append(multiset_permutations(jobs_on_m))
    total = math.prod(len(x) for x in per_machine)
    if total > cap:
        res.add("caps_hit")
    n_acc = n_rej = 0
    old = signal.signal(signal.SIGVTALRM, _alarm)
    try:
        for seqs in itertools.islice(itertools.product(*per_machine), cap):
            res.add("evaluations")
            res.add("transitions")
            if ref.J >= 2 and ref.N >= 3:
                res.add("nontrivial")
            want_ok = acyclic(ref, seqs)
            arg = [list(x) for x in seqs]
            signal.setitimer(signal.ITIMER_VIRTUAL, 10.0)
            try:
                R = Schedule.from_job_sequences(inst, arg)
                signal.setitimer(signal.ITIMER_VIRTUAL, 0)
                n_acc += 1
                if not want_ok:
                    res.violation(check, "cyclic-sequences-accepted", spec=spec, sequences=seqs, result=impl.snap_schedule(R))
                    continue
                snap = impl.snap_schedule(R)
                errs = feasibility_errors(ref, snap)
                if errs or not R.is_complete():
                    res.violation(check, "accepted-but-infeasible-or-incomplete", spec=spec, sequences=seqs, errors=errs[:4], result=snap)
                got = [[ref.ops[o][0] for (o, _, _) in ml] for ml in snap]
                if got != arg:
                    res.violation(check, "sequences-not-reproduced", spec=spec, sequences=seqs, observed=got)
            except _Hang:
                res.violation(check, "hang", spec=spec, sequences=seqs)
            except Exception as exc:  # noqa: BLE001
                signal.setitimer(signal.ITIMER_VIRTUAL, 0)
                n_rej += 1
                if type(exc).__name__ != "ValidationError":
                    res.violation(check, f"rejected-with-{type(exc).__name__}", spec=spec, sequences=seqs, error=repr(exc)[:200])
                elif want_ok:
                    res.violation(check, "acyclic-sequences-rejected", spec=spec, sequences=seqs)
    finally:
        signal.setitimer(signal.ITIMER_VIRTUAL, 0)
        signal.signal(signal.SIGVTALRM, old)
    res.add("states", n_acc)
    res.add("traces", n_acc + n_rej)
    res.aux_add("outcomes", ("acc", n_acc > 0, "rej", n_rej > 0))
    if n_rej and n_acc and ref.N >= 4 and len(res.samples) < 1:
        res.sample({"spec": spec, "permutation_tuples": total, "accepted": n_acc, "rejected": n_rej})


# ---------------------------------------------------------------------------
def run_immutable(res, spec):
    check = "instance_never_modified"
    ref = Ref(spec)
    inst = impl.mk_instance(spec, name="imm", tag=[1, 2])
    fp0 = impl.snap_instance(inst)
    res.add("evaluations")
    res.add("states")
    if ref.J >= 2 and ref.N >= 3:
        res.add("nontrivial")

    def expect_same(what):
        res.add("transitions")
        fp = impl.snap_instance(inst)
        if fp != fp0:
            diff = [i for i, (a, b) in enumerate(zip(fp, fp0)) if a != b]
            res.violation(check, f"modified-by:{what}", spec=spec, differing_fingerprint_fields=diff)
            return False
        return True

    from job_shop_lib.dispatching.rules import DispatchingRuleSolver
    from job_shop_lib import graphs, Schedule

    hists = list(ref.all_histories())
    for hist in (hists[0], hists[-1]):
        for builder in ("disjunctive", "complete_agent_task"):
            d = impl.mk_dispatcher(inst, ("dominated_operations",) if ref.positive else ())
            d2 = impl.mk_dispatcher(inst, ())
            obs = _snapall.attach_all(inst, d2, builder=builder, notes=res.note)
            impl.replay(d2, hist)
            _snapall.snap_all(d2, inst, obs)
            d2.reset()
            impl.replay(d2, hist)
            expect_same(f"dispatcher+observers({builder})")
    for rule in ("shortest_processing_time", "first_come_first_served", "most_work_remaining", "most_operations_remaining", "random"):
        for chooser in ("first", "random"):
            s = DispatchingRuleSolver(rule, chooser)(inst)
            s.to_dict()
        expect_same(f"DispatchingRuleSolver({rule})")
    if not ref.flexible:
        from job_shop_lib.constraint_programming import ORToolsSolver

        try:
            ORToolsSolver()(inst)
        except Exception as exc:  # noqa: BLE001  (C03's business)
            res.note(f"ortools-raised:{type(exc).__name__}")
        expect_same("ORToolsSolver")
        d3 = impl.mk_dispatcher(inst)
        impl.replay(d3, hists[0])
        graphs.build_solved_disjunctive_graph(d3.schedule)
        Schedule.from_job_sequences(inst, d3.schedule.to_dict()["job_sequences"])
        expect_same("solved-graph+from_job_sequences")
    for b in _env.BUILDERS:
        _env.builder(b)(inst)
        expect_same(f"graph-builder({b})")
    for b, reward in (("disjunctive", "makespan"), ("agent_task_with_jobs", "idle")):
        env = _env.mk_env(spec, builder_name=b, observers=tuple((o, None) for o in _env.OBSERVER_TYPES), reward=reward, inst=inst)
        env.reset()
        for c in hists[-1]:
            env.step(c)
        env.reset()
        expect_same(f"env({b})")
    json.dumps(inst.to_dict())
    type(inst).from_matrices(**inst.to_dict())
    expect_same("to_dict/from_matrices")
