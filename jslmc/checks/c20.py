"""C20 - Gantt charts and animations show the schedule that was built."""

from __future__ import annotations

import os
import shutil
import tempfile

from .. import families as F
from .. import impl
from ..core import Res
from ..refmodel import Ref

PROPERTY = "C20"
CHUNK = 4
RULE = (
    "Charts (E1): every distinct partial / complete schedule of the family is plotted with the "
    "real plot_gantt_chart (Agg) and the Axes artists are inspected: one bar collection per "
    "scheduled operation spanning start..end in the row of its machine (the row whose y tick is nearest), face "
    "colour == legend patch colour of its job, one labelled legend entry per job present, x "
    "axis (0, makespan) or the requested limit, last tick == limit, one y tick per machine. "
    "Frame content (E1): every history through the real create_gantt_chart_frames (recorded "
    "history, and solver-driven) and through GanttChartCreator.create_gif with a recording "
    "plot function: k-th frame shows exactly the first k dispatched operations. Frame order "
    "(E4 on n): for EVERY n = 1..N an n-step history (one n-operation job; n single-operation "
    "jobs) goes through the real create_gantt_chart_gif pipeline (file naming, directory "
    "listing, sorted loading) with a stub figure writing k into the frame file and "
    "imageio.imread/mimsave replaced by recorders: images must be loaded in order 1..n. "
    "Every state is also drawn through ONE get_partial_gantt_chart_plotter() object kept for the whole traversal (x axis and bar count per schedule). End-to-end: real GIF (and video, thorough) written and decoded with imageio for n <= 12. "
    "Case = one schedule / history / n; non-trivial = schedule with >= 2 operations on >= 2 "
    "jobs, or n >= 10."
)
ASSUMPTIONS = [
    "frame order decided for every n <= N only (N listed under bounds)",
    "artists are inspected, pixels are not compared except the decoded gray level that encodes the frame number",
    "axis-limit clause asserted only when the limit is positive (a zero-width matplotlib axis is widened by matplotlib itself)",
]
BOUNDS = {
    "quick": "charts: distinct schedules of K3[seed%6::6] and small probes, + requested limits; frame content: all histories of K3[seed%3::3], probes (solver-driven on probes); frame order: every n in 1..130 and 998..1002 x 2 instance shapes; GIF end-to-end: n = 3 and n = 12",
    "thorough": "charts: K3, K4[::16], probes; frame content: K3, K4[::8], probes; frame order: every n in 1..1100 and 9999..10001; GIF + video end-to-end n in {3, 12}",
}


def cases(tier, seed):
    out = []
    if tier == "quick":
        out += [("charts", s) for s in F.sliced(F.K3(), seed % 6, 6)]
        out += [("charts", s) for s in F.P_SMALL]
        out += [("frames", s) for s in F.sliced(F.K3(), seed % 3, 3)]
        out += [("frames", s) for s in F.P_SMALL]
        out += [("solver_frames", s) for s in F.P_ALL]
        N = 130
    else:
        out += [("charts", s) for s in F.K3()]
        out += [("charts", s) for s in F.sliced(F.K4(), seed % 16, 16)]
        out += [("charts", s) for s in F.P_ALL]
        out += [("frames", s) for s in F.K3()]
        out += [("frames", s) for s in F.sliced(F.K4(), seed % 8, 8)]
        out += [("frames", s) for s in F.P_SMALL]
        out += [("solver_frames", s) for s in F.P_ALL]
        N = 1100
    step = 10 if tier == "quick" else 25
    for lo in range(1, N + 1, step):
        out.append(("order", (lo, min(N, lo + step - 1))))
    if tier == "quick":
        out.append(("order", (998, 1002)))  # around the next power of ten as well
    else:
        out.append(("order", (9999, 10001)))
    out.append(("gif", (3, "gif")))
    out.append(("gif", (12, "gif")))
    if tier != "quick":
        out.append(("gif", (3, "mp4")))
        out.append(("gif", (12, "mp4")))
    return out


def heavy(case):
    return case[0] in ("gif", "order") or (case[0] != "order" and F.n_ops(case[1]) >= 5)


def run_case(case) -> Res:
    res = Res()
    kind, arg = case
    {"charts": run_charts, "frames": run_frames, "solver_frames": run_solver_frames, "order": run_order, "gif": run_gif}[kind](res, arg)
    return res


# ---------------------------------------------------------------------------
def close(a, b, tol=1e-6):
    return abs(a - b) <= tol


def inspect_chart(res, spec, ref, st, schedule, xlim_req, hist):
    import matplotlib.pyplot as plt
    from job_shop_lib.visualization import plot_gantt_chart

    check = "gantt_chart_matches_schedule"
    common = dict(spec=spec, history=hist, xlim=xlim_req)
    kwargs = {} if xlim_req is None else {"xlim": xlim_req}
    fig, ax = plot_gantt_chart(schedule, **kwargs)
    try:
        bars = []
        for coll in ax.collections:
            paths = coll.get_paths()
            fcs = coll.get_facecolor()
            for i, p in enumerate(paths):
                xs = [v[0] for v in p.vertices]
                ys = [v[1] for v in p.vertices]
                fc = tuple(round(float(c), 6) for c in (fcs[i] if len(fcs) > i else fcs[0]))
                bars.append((min(xs), max(xs), min(ys), max(ys), fc))
        for patch in ax.patches:  # bars drawn as rectangles (barh) count as well
            if hasattr(patch, "get_width") and hasattr(patch, "get_xy"):
                x0, y0 = patch.get_xy()
                fc = tuple(round(float(c), 6) for c in patch.get_facecolor())
                bars.append((x0, x0 + patch.get_width(), y0, y0 + patch.get_height(), fc))
        yticks = list(ax.get_yticks())
        want = []
        for m, ml in enumerate(st.sched):
            for (o, s, e) in ml:
                want.append((o, float(s), float(e), m))
        if len(bars) != len(want):
            res.violation(check, "number-of-bars-differs-from-scheduled-operations", bars=len(bars), scheduled=len(want), **common)
            return
        leg = ax.get_legend()
        legend = {}
        if leg is not None:
            for patch, text in zip(leg.get_patches(), leg.get_texts()):
                legend[text.get_text()] = tuple(round(float(c), 6) for c in patch.get_facecolor())
        jobs_present = sorted({ref.ops[o][0] for o in st.where})
        if sorted(legend) != sorted(f"Job {j}" for j in jobs_present):
            res.violation(check, "legend-entries-differ-from-jobs-present", legend=sorted(legend), jobs=jobs_present, **common)
        unmatched = list(bars)
        def row_of(b):
            """machine row of a bar = the y tick (one per machine) nearest to its centre."""
            if len(yticks) != ref.M:
                return None
            yc = (b[2] + b[3]) / 2.0
            return min(range(ref.M), key=lambda i: abs(yticks[i] - yc))

        for (o, s, e, m) in want:
            j = ref.ops[o][0]
            hit = None
            for b in unmatched:
                if close(b[0], s) and close(b[1], e) and row_of(b) == m and b[3] > b[2]:
                    if legend.get(f"Job {j}") is None or b[4] == legend[f"Job {j}"]:
                        hit = b
                        break
            if hit is None:
                res.violation(check, "no-bar-for-scheduled-operation", operation=o, job=j, expected=dict(start=s, end=e, machine_row=m), bars=[b[:4] for b in bars], yticks=yticks, **common)
                return
            unmatched.remove(hit)
        # bars of different machines must not share a row band
        for b1 in bars:
            for b2 in bars:
                if row_of(b1) is not None and row_of(b1) != row_of(b2) and min(b1[3], b2[3]) - max(b1[2], b2[2]) > 1e-9:
                    res.violation(check, "rows-of-different-machines-overlap", bars=[b[:4] for b in (b1, b2)], **common)
                    return
        if len(set(legend.values())) != len(legend):
            res.violation(check, "two-jobs-share-a-colour", legend=legend, **common)
        mk = st.makespan()
        limit = mk if xlim_req is None else xlim_req
        lo, hi = ax.get_xlim()
        if limit > 0 and not (close(lo, 0) and close(hi, limit)):
            res.violation(check, "x-axis-limits-wrong", observed=(lo, hi), expected=(0, limit), **common)
        ticks = list(ax.get_xticks())
        if not ticks or not close(ticks[-1], limit):
            res.violation(check, "last-tick-is-not-the-limit", ticks=ticks, limit=limit, **common)
        yt = list(ax.get_yticks())
        if len(yt) != ref.M or any(b <= a for a, b in zip(yt, yt[1:])):
            res.violation(check, "y-ticks-not-one-per-machine", yticks=yt, machines=ref.M, **common)
    finally:
        plt.close(fig)


def run_charts(res, spec):
    import matplotlib.pyplot as plt
    from job_shop_lib.visualization import get_partial_gantt_chart_plotter, GanttChartCreator

    ref = Ref(spec)
    inst = impl.mk_instance(spec)
    seen = set()
    plotter = get_partial_gantt_chart_plotter()  # one plotter for all states, as a creator/env keeps it
    for hist in ref.all_histories(complete_only=False):
        st = ref.state(hist)
        key = st.canon()
        if key in seen:
            continue
        seen.add(key)
        d = impl.mk_dispatcher(inst)
        impl.replay(d, hist)
        res.add("transitions", len(hist))
        for xl in (None,) if len(hist) != 1 else (None, st.makespan() + 3):
            res.add("evaluations")
            if len(hist) >= 2 and len({j for j, _ in hist}) >= 2:
                res.add("nontrivial")
            inspect_chart(res, spec, ref, st, d.schedule, xl, hist)
        # the same plotter object reused for many schedules (makespans go up and
        # down along the traversal): each chart shows ITS schedule
        figs = [("reused-plotter", plotter(d.schedule, None, d.available_operations(), d.current_time()))]
        if len(hist) in (ref.N, ref.N // 2):
            # the way an environment draws: a GanttChartCreator on the dispatcher
            creator = GanttChartCreator(d)
            if creator.dispatcher is not d or creator.schedule is not d.schedule or creator.instance is not inst:
                res.violation("gantt_chart_matches_schedule", "creator-views-wrong-objects", spec=spec, history=hist)
            figs.append(("creator", creator.plot_gantt_chart()))
        for via, fig in figs:
            try:
                ax = fig.axes[0]
                mk = st.makespan()
                lo, hi = ax.get_xlim()
                n_bars = len(ax.collections) + len([p for p in ax.patches if hasattr(p, "get_width")])
                if mk > 0 and not (close(lo, 0) and close(hi, mk)):
                    res.violation("gantt_chart_matches_schedule", f"{via}-x-axis-wrong", spec=spec, history=hist, observed=(lo, hi), expected=(0, mk))
                if n_bars != len(st.where):
                    res.violation("gantt_chart_matches_schedule", f"{via}-number-of-bars", spec=spec, history=hist, bars=n_bars, scheduled=len(st.where))
            finally:
                plt.close(fig)
    res.add("states", len(seen))
    res.add("traces", len(seen))
    if ref.N >= 3 and ref.J >= 2 and len(res.samples) < 1:
        res.sample({"spec": spec, "distinct_schedules_plotted": len(seen)})


# ---------------------------------------------------------------------------
_STUB = None


def stub_figure():
    global _STUB
    if _STUB is None:
        from matplotlib.figure import Figure

        class StubFigure(Figure):
            k = 0

            def savefig(self, fname, *a, **kw):
                with open(fname, "w") as f:
                    f.write(str(self.k))

        _STUB = StubFigure()
    return _STUB


def recording_plot(seen):
    fig = stub_figure()

    def plot(schedule, makespan=None, available_operations=None, current_time=None):
        seen.append((impl.snap_schedule(schedule), makespan, current_time))
        fig.k = len(seen)
        return fig

    return plot


def expected_frames(ref, hist):
    out = []
    for k in range(1, len(hist) + 1):
        sk = ref.state(hist[:k])
        out.append(tuple(tuple((o, s, m) for (o, s, _) in ml) for m, ml in enumerate(sk.sched)))
    return out


def run_frames(res, spec):
    check = "frame_k_shows_first_k_operations"
    from job_shop_lib.dispatching import HistoryObserver
    from job_shop_lib.visualization import create_gantt_chart_frames, GanttChartCreator

    ref = Ref(spec)
    inst = impl.mk_instance(spec)
    tmp = tempfile.mkdtemp(prefix="jslmc-c20-")
    try:
        all_hists = list(ref.all_histories())
        for n_h, hist in enumerate(all_hists):
            res.add("evaluations")
            res.add("traces")
            if len(hist) >= 2 and len({j for j, _ in hist}) >= 2:
                res.add("nontrivial")
            d = impl.mk_dispatcher(inst)
            ho = HistoryObserver(d)
            creator = GanttChartCreator(d, gif_config={"gif_path": os.path.join(tmp, "x.gif"), "frames_dir": os.path.join(tmp, "fr")}) if n_h < 3 else None
            impl.replay(d, hist)
            res.add("transitions", 2 * len(hist))
            want = expected_frames(ref, hist)
            seen = []
            create_gantt_chart_frames(tmp, inst, None, recording_plot(seen), True, ho.history)
            if [s[0] for s in seen] != want:
                res.violation(check, "frames-differ", sig={"via": "create_gantt_chart_frames"}, spec=spec, history=hist, observed=[s[0] for s in seen], expected=want)
            mk = ref.state(hist).makespan()
            if any(s[1] != mk for s in seen):
                res.violation(check, "makespan-argument-wrong", sig={"via": "create_gantt_chart_frames"}, spec=spec, history=hist, observed=[s[1] for s in seen], expected=mk)
            files = sorted(os.listdir(tmp))
            n_png = [f for f in files if f.endswith(".png")]
            if len(n_png) != len(hist):
                res.violation(check, "number-of-frame-files", sig={"via": "create_gantt_chart_frames"}, spec=spec, history=hist, files=files)
            for f in n_png:
                os.remove(os.path.join(tmp, f))
            if creator is not None:
                # the facade: same history through GanttChartCreator.create_gif with
                # a recording plotter and recorders instead of the image codec
                import imageio

                seen2, loaded = [], []
                creator.partial_gantt_chart_plotter = recording_plot(seen2)
                saved = (imageio.imread, imageio.mimsave)
                imageio.imread = lambda path, *a, **k: int(open(path).read())
                imageio.mimsave = lambda path, images, *a, **k: loaded.extend(images)
                try:
                    creator.create_gif()
                finally:
                    imageio.imread, imageio.mimsave = saved
                if [s[0] for s in seen2] != want:
                    res.violation(check, "frames-differ", sig={"via": "GanttChartCreator.create_gif"}, spec=spec, history=hist, observed=[s[0] for s in seen2], expected=want)
                if loaded != list(range(1, len(hist) + 1)):
                    res.violation(check, "frames-loaded-out-of-order", sig={"via": "GanttChartCreator.create_gif"}, spec=spec, history=hist, loaded=loaded)
                # a second episode on the same dispatcher/creator: the animation
                # must show the history recorded since the reset
                d.reset()
                hist2 = all_hists[-1 - n_h]
                impl.replay(d, hist2)
                seen3, loaded3 = [], []
                creator.partial_gantt_chart_plotter = recording_plot(seen3)
                imageio.imread = lambda path, *a, **k: int(open(path).read())
                imageio.mimsave = lambda path, images, *a, **k: loaded3.extend(images)
                try:
                    creator.create_gif()
                finally:
                    imageio.imread, imageio.mimsave = saved
                if [s[0] for s in seen3] != expected_frames(ref, hist2) or loaded3 != list(range(1, len(hist2) + 1)):
                    res.violation(check, "frames-differ-in-second-episode", sig={"via": "GanttChartCreator.create_gif"}, spec=spec, first_episode=hist, second_episode=hist2, observed=[s[0] for s in seen3], expected=expected_frames(ref, hist2))
    finally:
        shutil.rmtree(tmp, ignore_errors=True)
    res.add("states")


def run_solver_frames(res, spec):
    check = "frame_k_shows_first_k_operations"
    from job_shop_lib.dispatching.rules import DispatchingRuleSolver
    from job_shop_lib.visualization import create_gantt_chart_frames

    ref = Ref(spec)
    inst = impl.mk_instance(spec)
    tmp = tempfile.mkdtemp(prefix="jslmc-c20-")
    try:
        for rule in ("most_work_remaining", "shortest_processing_time"):
            solver = DispatchingRuleSolver(rule)
            final = impl.snap_schedule(solver.solve(inst))
            seen = []
            create_gantt_chart_frames(tmp, inst, solver, recording_plot(seen), True, None)
            res.add("evaluations")
            res.add("nontrivial")
            res.add("traces")
            res.add("transitions", 2 * ref.N)
            frames = [s[0] for s in seen]
            ok = len(frames) == ref.N and frames[-1] == final
            prev = tuple(() for _ in range(ref.M))
            for fr in frames:
                # each frame extends the previous one by exactly one operation
                n_prev = sum(len(x) for x in prev)
                if sum(len(x) for x in fr) != n_prev + 1 or any(tuple(a[: len(b)]) != tuple(b) for a, b in zip(fr, prev)):
                    ok = False
                prev = fr
            if not ok:
                res.violation(check, "solver-driven-frames-differ", sig={"via": "solver"}, spec=spec, rule=rule, observed=frames, final=final)
            for f in os.listdir(tmp):
                os.remove(os.path.join(tmp, f))
    finally:
        shutil.rmtree(tmp, ignore_errors=True)
    res.add("states")


# ---------------------------------------------------------------------------
def long_instance(n, shape):
    if shape == "one-job":
        return (tuple(((k % 2,), 1) for k in range(n)),)
    return tuple((((k % 3,), 1 + k % 2),) for k in range(n))


def run_order(res, rng):
    check = "frames_loaded_in_dispatch_order"
    import imageio
    from job_shop_lib.dispatching import HistoryObserver
    from job_shop_lib.visualization import create_gantt_chart_gif

    lo, hi = rng
    for n in range(lo, hi + 1):
        for shape in ("one-job", "n-jobs"):
            spec = long_instance(n, shape)
            inst = impl.mk_instance(spec)
            d = impl.mk_dispatcher(inst)
            ho = HistoryObserver(d)
            if shape == "one-job":
                hist = [(0, k % 2) for k in range(n)]
            else:
                hist = [(k, k % 3) for k in range(n)]
            impl.replay(d, hist)
            tmp = tempfile.mkdtemp(prefix="jslmc-c20-")
            seen, loaded = [], []
            saved = (imageio.imread, imageio.mimsave)
            imageio.imread = lambda path, *a, **k: int(open(path).read())
            imageio.mimsave = lambda path, images, *a, **k: loaded.extend(images)
            try:
                create_gantt_chart_gif(
                    inst, gif_path=os.path.join(tmp, "out.gif"), plot_function=recording_plot(seen),
                    schedule_history=ho.history, frames_dir=os.path.join(tmp, "frames"),
                )
            finally:
                imageio.imread, imageio.mimsave = saved
                shutil.rmtree(tmp, ignore_errors=True)
            res.add("evaluations")
            res.add("traces")
            res.add("transitions", 2 * n)
            if n >= 10:
                res.add("nontrivial")
            if loaded != list(range(1, n + 1)):
                first_bad = next((i for i, (a, b) in enumerate(zip(loaded, range(1, n + 1))) if a != b), min(len(loaded), n))
                res.violation(check, "frames-loaded-out-of-order", sig={"shape": shape}, n=n, shape=shape, first_wrong_position=first_bad + 1, loaded_there=loaded[first_bad : first_bad + 3], number_loaded=len(loaded))
            if len(seen) != n:
                res.violation(check, "wrong-number-of-frames", sig={"shape": shape}, n=n, shape=shape, frames=len(seen))
    res.add("states", hi - lo + 1)
    if lo <= 100 <= hi:
        res.sample({"n": 100, "shapes": ["one job with 100 operations", "100 single-operation jobs"], "expected_load_order": "1..100"})


def run_gif(res, arg):
    """Real encoder + decoder: the k-th decoded frame carries gray level 20*k."""
    check = "decoded_frames_in_order"
    import imageio
    import numpy as np
    from matplotlib.figure import Figure
    from job_shop_lib.dispatching import HistoryObserver
    from job_shop_lib.visualization import create_gantt_chart_gif, create_gantt_chart_video

    n, fmt = arg
    spec = long_instance(n, "n-jobs")
    inst = impl.mk_instance(spec)
    d = impl.mk_dispatcher(inst)
    ho = HistoryObserver(d)
    impl.replay(d, [(k, k % 3) for k in range(n)])
    count = [0]

    def plot(schedule, makespan=None, available_operations=None, current_time=None):
        count[0] += 1
        g = 20 * count[0] / 255.0
        fig = Figure(figsize=(1.6, 1.6), dpi=40)
        fig.patch.set_facecolor((g, g, g))
        ax = fig.add_axes([0, 0, 1, 1])
        ax.set_axis_off()
        ax.set_facecolor((g, g, g))
        return fig

    tmp = tempfile.mkdtemp(prefix="jslmc-c20-")
    try:
        path = os.path.join(tmp, "out." + fmt)
        try:
            if fmt == "gif":
                create_gantt_chart_gif(inst, gif_path=path, plot_function=plot, schedule_history=ho.history, fps=5)
            else:
                create_gantt_chart_video(inst, video_path=path, plot_function=plot, schedule_history=ho.history, fps=5)
        except Exception as exc:  # noqa: BLE001
            if fmt != "gif":
                res.note(f"video-skipped:{type(exc).__name__}")
                res.add("evaluations")
                return
            raise
        frames = imageio.mimread(path)
        decoded = []
        for fr in frames:
            a = np.asarray(fr)[..., :3].astype(float)
            h, w = a.shape[:2]
            decoded.append(int(round(a[h // 4 : 3 * h // 4, w // 4 : 3 * w // 4].mean() / 20.0)))
        res.add("evaluations")
        res.add("nontrivial")
        res.add("traces")
        res.add("transitions", n)
        res.add("states")
        if decoded != list(range(1, n + 1)):
            res.violation(check, "decoded-frame-ids-differ", sig={"format": fmt}, n=n, decoded=decoded)
        else:
            res.sample({"format": fmt, "n": n, "decoded_frame_ids": decoded})
    finally:
        shutil.rmtree(tmp, ignore_errors=True)
