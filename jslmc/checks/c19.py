"""C19 - generated instances respect the requested shape and seed (E2 + E4)."""

from __future__ import annotations

import itertools

from .. import impl
from ..core import Res
from ..explore import explore_choices, owned_random

PROPERTY = "C19"
CHUNK = 2
RULE = (
    "E2: for each generator parameter setting of a grid, GeneralInstanceGenerator.generate() is "
    "executed under an owned `random` module for EVERY sequence of answers (randint / choice) - "
    "so every instance the generator can emit for that setting is produced once - and each "
    "outcome is checked against the shape predicates; over the outcome set of a setting the "
    "union of eligible-machine sets per operation position must be all M machines. E4: with "
    "the real Mersenne Twister, for a list of seeds x settings, two generators built one after "
    "the other with the same seed must give content-equal sequences; names pairwise distinct "
    "over generate() + two iterations; len(list(gen)) == iteration_limit on every iteration. "
    "Case = one complete answer sequence (= one generated instance) or one (seed, setting); "
    "non-trivial = instance with >= 2 jobs and >= 2 machines."
)
ASSUMPTIONS = [
    "parameter grid and answer-tree cap as listed under bounds (a capped setting is reported under caps_hit and what was enumerated below the cap is still checked)",
    "seed clause: finite seed list with the real RNG; generators are used one after the other (global seeding at construction is the documented mechanism)",
    "settings that are unsatisfiable for every job count (fewer jobs than machines disallowed and max jobs < min machines) are excluded; for a drawn job count below the machine minimum only 'jobs >= machines', the machine maximum and the other clauses are demanded (the lower end of the machine range cannot hold together with them)",
]
BOUNDS = {
    "quick": "jobs in {1,2,3,(1,2),(2,3)} x machines in {1,2,3,(1,2),(2,3)} x durations {(1,1),(0,1)} x allow_less x recirculation x machines_per_operation {1,(1,1),2,(1,2),(2,2)}, with explicit size arguments (both sizes for a third of the settings, only the job count or only the machine count for another third); settings whose tree exceeds 60000 leaves are capped; seeds {0,1,2,42} x 12 settings",
    "thorough": "same grid + durations (2,3), cap 400000 leaves; seeds {0..9,42,2**31} x 24 settings",
}


def norm(r):
    return (r, r) if isinstance(r, int) else tuple(r)


def settings(tier):
    jobs = [1, 2, 3, (1, 2), (2, 3)]
    machines = [1, 2, 3, (1, 2), (2, 3)]
    durs = [(1, 1), (0, 1)] + ([(2, 3)] if tier != "quick" else [])
    mpos = [1, (1, 1), 2, (1, 2), (2, 2)]
    out = []
    for nj, nm, dr, less, recirc, mpo in itertools.product(jobs, machines, durs, (True, False), (False, True), mpos):
        j, m, k = norm(nj), norm(nm), norm(mpo)
        if k[1] > m[0]:
            continue  # more machines per operation than machines can exist
        if not less and j[1] < m[0]:
            continue  # unsatisfiable for every job count
        if not less and j[0] < m[0] and k[1] > j[0]:
            continue  # clamped machine count could fall below machines_per_operation: not a setting the statement defines
        # (partly satisfiable settings - some job counts below the machine
        # minimum - are kept: the jobs >= machines clause is demanded there
        # too, only the lower end of the machine range is waived, see
        # shape_errors)
        # keep the answer tree small: wide duration ranges only on <= 6 ops
        max_ops = j[1] * m[1]
        if dr != (1, 1) and max_ops > 6:
            continue
        if k[1] > 1 and max_ops > 4:
            continue
        if recirc and max_ops > 6:
            continue
        out.append(dict(num_jobs=nj, num_machines=nm, duration_range=dr, allow_less_jobs_than_machines=less, allow_recirculation=recirc, machines_per_operation=mpo))
    return out


def cases(tier, seed):
    cap = 60000 if tier == "quick" else 400000
    out = []
    for i, p in enumerate(settings(tier)):
        key = tuple(sorted(p.items()))
        out.append(("enumerate", key, None, cap))
        if i % 3 == 0:
            j, m = norm(p["num_jobs"]), norm(p["num_machines"])
            if p["allow_less_jobs_than_machines"] or j[1] >= m[0]:
                mm = m[0] if not p["allow_less_jobs_than_machines"] else m[1]
                out.append(("enumerate", key, (j[1], mm), cap))
        if i % 3 == 1:
            # only one of the two sizes requested, the other drawn by the generator
            j, m = norm(p["num_jobs"]), norm(p["num_machines"])
            for jj in sorted({j[0], j[1]}):
                out.append(("enumerate", key, (jj, None), cap))
            if p["allow_less_jobs_than_machines"]:
                out.append(("enumerate", key, (None, m[1]), cap))
    seeds = [0, 1, 2, 42] if tier == "quick" else list(range(10)) + [42, 2**31]
    ss = settings(tier)
    step = max(1, len(ss) // (12 if tier == "quick" else 24))
    for p in ss[::step]:
        out.append(("seeds", tuple(sorted(p.items())), tuple(seeds), None))
    return out


def heavy(case):
    return True


def content(inst):
    return tuple(tuple((tuple(o.machines), o.duration) for o in job) for job in inst.jobs)


def shape_errors(p, spec, explicit):
    """Violated shape predicates of one generated instance."""
    errs = []
    j_rng, m_rng, k_rng = norm(p["num_jobs"]), norm(p["num_machines"]), norm(p["machines_per_operation"])
    d_rng = p["duration_range"]
    J = len(spec)
    explicit = explicit or (None, None)
    if explicit[0] is None:
        if not j_rng[0] <= J <= j_rng[1]:
            errs.append(f"job count {J} outside {j_rng}")
    elif J != explicit[0]:
        errs.append(f"job count {J} != requested {explicit[0]}")
    lens = {len(job) for job in spec}
    if len(lens) != 1:
        errs.append(f"jobs have different numbers of operations {sorted(lens)}")
        return errs
    M = lens.pop()
    if explicit[1] is None:
        # With fewer jobs than machines disallowed and J below the machine
        # minimum no M can satisfy both clauses; the statement's unconditional
        # clause (jobs >= machines) is kept and the lower end is waived.
        m_lo = m_rng[0] if (p["allow_less_jobs_than_machines"] or J >= m_rng[0]) else 1
        if not m_lo <= M <= m_rng[1]:
            errs.append(f"operations per job {M} outside machine range {m_rng}")
    elif M != explicit[1]:
        errs.append(f"operations per job {M} != requested machines {explicit[1]}")
    for job in spec:
        for ms, d in job:
            if any(not 0 <= m < M for m in ms):
                errs.append(f"machine id in {ms} not below M={M}")
            if not d_rng[0] <= d <= d_rng[1]:
                errs.append(f"duration {d} outside {d_rng}")
            if len(set(ms)) != len(ms):
                errs.append(f"eligible machines {ms} not distinct")
            if not k_rng[0] <= len(ms) <= k_rng[1]:
                errs.append(f"{len(ms)} eligible machines, requested {k_rng}")
    if not p["allow_recirculation"] and k_rng[1] == 1:
        for job in spec:
            if sorted(ms[0] for ms, _ in job) != list(range(M)):
                errs.append(f"job visits {[ms[0] for ms, _ in job]}: not each of {M} machines once")
                break
    if not p["allow_less_jobs_than_machines"] and J < M:
        errs.append(f"{J} jobs < {M} machines although disallowed")
    return errs


def run_case(case) -> Res:
    res = Res()
    kind, key, arg, cap = case
    p = dict(key)
    if kind == "enumerate":
        run_enumerate(res, p, arg, cap)
    else:
        run_seeds(res, p, arg)
    return res


def run_enumerate(res, p, explicit, cap):
    check = "generated_shape"
    from job_shop_lib.generation import GeneralInstanceGenerator

    sig = {"machines_per_operation": str(p["machines_per_operation"]), "allow_less": p["allow_less_jobs_than_machines"], "explicit_sizes": explicit is not None}

    def run(ch):
        with owned_random(ch):
            g = GeneralInstanceGenerator(**p)
            try:
                inst = g.generate(*explicit) if explicit else g.generate()
            except Exception as exc:  # noqa: BLE001
                return ("raised", type(exc).__name__, repr(exc)[:200])
        return ("ok", content(inst), inst.name)

    outcomes = set()
    coverage = {}
    n_points = 0
    for choices, out in explore_choices(run, max_leaves=cap):
        if choices == "CAP":
            res.add("caps_hit")
            res.note("answer-tree-capped")
            break
        res.add("evaluations")
        res.add("traces")
        res.add("transitions", len(choices))
        n_points = max(n_points, len(choices))
        if out[0] == "raised":
            res.violation(check, f"generate-raised:{out[1]}", sig=sig, parameters=p, explicit=explicit, answers=choices, error=out[2])
            continue
        spec = out[1]
        if spec in outcomes:
            res.add("duplicate_outcomes")
        outcomes.add(spec)
        if len(spec) >= 2 and len(spec[0]) >= 2:
            res.add("nontrivial")
        errs = shape_errors(p, spec, explicit)
        if errs:
            res.violation(check, "shape-violated", sig=sig, parameters=p, explicit=explicit, answers=choices, instance=spec, errors=errs[:4])
        M = len(spec[0])
        for job in spec:
            for pos, (ms, _) in enumerate(job):
                coverage.setdefault((len(spec), M, pos), set()).update(ms)
    res.add("states", len(outcomes))
    if n_points == 0:
        res.note("no-choice-point-seen(random not intercepted)")
    # "drawn from all M machines": existential over the enumerated outcome set
    if not res.c.get("caps_hit"):
        for (J, M, pos), seen in sorted(coverage.items()):
            if seen != set(range(M)):
                res.violation("machines_drawn_from_all", "machine-never-drawn", sig=sig, parameters=p, explicit=explicit, jobs=J, machines=M, position=pos, drawn=sorted(seen))
                break
    if len(outcomes) > 3 and len(res.samples) < 1:
        res.sample({"parameters": p, "explicit_sizes": explicit, "distinct_instances": len(outcomes), "one_of_them": sorted(outcomes)[len(outcomes) // 2]})
    res.aux_add("n_outcomes", len(outcomes))


def run_seeds(res, p, seeds):
    check = "same_seed_same_sequence"
    from job_shop_lib.generation import GeneralInstanceGenerator

    for seed in seeds:
        res.add("evaluations")
        res.add("nontrivial")
        seqs = []
        for _ in range(2):
            g = GeneralInstanceGenerator(seed=seed, **p)
            seqs.append([content(g.generate()) for _ in range(3)])
            res.add("transitions", 3)
        if seqs[0] != seqs[1]:
            res.violation(check, "sequences-differ", parameters=p, seed=seed, first=seqs[0], second=seqs[1])
        for a, b in ((1, 2),):
            pass
        # iteration protocol and names
        for limit in (0, 1, 3):
            g = GeneralInstanceGenerator(seed=seed, iteration_limit=limit, **p)
            names = [g.generate().name, g.generate().name]
            # (bounded: an iterator that never stops is a violation, not a hang)
            first = list(itertools.islice(g, limit + 4))
            second = list(itertools.islice(g, limit + 4))
            res.add("transitions", 2 + len(first) + len(second))
            if len(first) != limit or len(second) != limit:
                res.violation("iteration_limit", "wrong-number-of-instances", parameters=p, limit=limit, first=len(first), second=len(second))
            try:
                if len(g) != limit:
                    res.violation("iteration_limit", "len-differs", parameters=p, limit=limit, observed=len(g))
            except Exception as exc:  # noqa: BLE001
                res.violation("iteration_limit", f"len-raised:{type(exc).__name__}", parameters=p, limit=limit)
            names += [i.name for i in first] + [i.name for i in second]
            if len(set(names)) != len(names):
                res.violation("names_unique", "name-reused", parameters=p, limit=limit, names=names)
            for inst in first + second:
                errs = shape_errors(p, content(inst), None)
                if errs:
                    res.violation("generated_shape", "shape-violated-real-rng", parameters=p, seed=seed, instance=content(inst), errors=errs[:4])
    res.add("states", len(seeds))
    res.add("traces", len(seeds))


def finalize(total, tier, seed):
    return {"distinct_outcomes_per_setting_max": max(total.aux.get("n_outcomes", {0}))}
