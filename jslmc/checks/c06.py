"""C06 - time only moves forward."""

from __future__ import annotations

import itertools

from .. import families as F
from .. import impl
from ..core import Res
from ..refmodel import Ref, FILTERS, filter_configs
from . import _disp

PROPERTY = "C06"
CHUNK = 16
RULE = (
    "Every dispatch history of every instance is executed on a real Dispatcher; along every "
    "edge current_time() must not decrease and completed_operations() must only grow, and "
    "at complete schedules current_time() == makespan. Without filter: all instances (zero "
    "durations included). With every ordered composition of built-in filters: positive "
    "durations, where an unfiltered twin dispatcher is driven in lock-step and must show "
    "the same current time in every state. Case = one history prefix under one filter "
    "configuration; non-trivial = >= 2 steps involving >= 2 jobs."
)
ASSUMPTIONS = ["bounded to the listed instance families"]
BOUNDS = {
    "quick": "no filter: K3, K4[seed%16::16], probes; filters: 16 configs (singles + ordered pairs) on K3+ (positive durations) and K4+[seed%16::16], default pair on positive probes",
    "thorough": "no filter: K3, K4, NF5 slice, probes; all 64 ordered filter subsets on K3+, 16 configs on K4+ and M3; TLC cross-check",
}

ALL64 = [c for r in range(1, 5) for c in itertools.permutations(FILTERS, r)]
CFG16 = [c for c in filter_configs(2) if c]


def cases(tier, seed):
    out = []
    for s in F.K3():
        out.append(("time", s, ((),)))
    if tier == "quick":
        for s in F.sliced(F.K4(), seed % 16, 16):
            out.append(("time", s, ((),)))
        for s in F.K3_pos():
            out.append(("time", s, tuple(CFG16)))
        for s in F.sliced(F.K4_pos(), seed % 16, 16):
            out.append(("time", s, tuple(CFG16)))
        for s in F.P_ALL + F.P_HUGE:
            cf = ((),) if F.has_zero(s) else ((), ("dominated_operations", "non_idle_machines"))
            out.append(("time", s, cf))
        for s in F.sliced(F.K5(), seed % 128, 128):
            out.append(("time", s, ((),) if F.has_zero(s) else ((), ("dominated_operations", "non_idle_machines"))))
        out.append(("tlc", 2))
    else:
        for s in F.K4():
            out.append(("time", s, ((),)))
        for s in F.sliced(F.NF5(), seed % 8, 8):
            out.append(("time", s, ((),)))
        for s in F.K3_pos():
            out.append(("time", s, tuple(ALL64)))
        for s in F.K4_pos():
            out.append(("time", s, tuple(CFG16)))
        for s in F.M3():
            out.append(("time", s, tuple(CFG16[:4]) + (("dominated_operations", "non_idle_machines"),)))
        for s in F.P_ALL:
            cf = ((),) if F.has_zero(s) else ((),) + tuple(CFG16[:4]) + (("dominated_operations", "non_idle_machines"),)
            out.append(("time", s, cf))
        out += [("tlc", k) for k in range(3)]
    return out


def heavy(case):
    return case[0] == "tlc" or F.n_ops(case[1]) >= 5


def run_case(case) -> Res:
    res = Res()
    if case[0] == "tlc":
        from ..tlc import run_tlc_case

        run_tlc_case(res, case[1], "C06")
        return res
    _, spec, cfgs = case
    for filters in cfgs:
        run_time(res, spec, filters)
    return res


def run_time(res, spec, filters):
    check = "time_monotone"
    sig = {"filters": "+".join(filters) if filters else "none"}

    def make_extra(inst, d):
        # unfiltered twin on the same instance, driven in lock-step
        return impl.mk_dispatcher(inst, ()) if filters else None

    def on_dispatch(live, c):
        if live.extra is not None:
            impl.dispatch(live.extra, *c)

    def visit(hist, live, parent_obs, ref):
        d = live.d
        now = d.current_time()
        completed = frozenset(o.operation_id for o in d.completed_operations())
        st = ref.state(hist)
        if parent_obs is not None:
            pnow, pcomp = parent_obs
            if now < pnow:
                res.violation(check, "current-time-decreased", sig=sig, spec=spec, filters=filters, history=hist, before=pnow, after=now)
            if not pcomp <= completed:
                res.violation(check, "completed-set-shrank", sig=sig, spec=spec, filters=filters, history=hist, before=sorted(pcomp), after=sorted(completed))
        if len(hist) == ref.N and now != st.makespan():
            res.violation(check, "final-time-not-makespan", sig=sig, spec=spec, filters=filters, history=hist, now=now, makespan=st.makespan())
        if live.extra is not None:
            tnow = live.extra.current_time()
            if tnow != now:
                res.violation("filter_keeps_time", "filter-changes-current-time", sig=sig, spec=spec, filters=filters, history=hist, filtered=now, unfiltered=tnow)
        # the reference value as a third witness
        pinned = ref.positive or "dominated_operations" not in filters
        if pinned and now != st.now(filters):
            res.violation(check, "current-time-differs-from-reference", sig=sig, spec=spec, filters=filters, history=hist, observed=now, expected=st.now(filters))
        if len(hist) == ref.N and ref.N >= 3 and _disp.interleaves(hist) and filters:
            res.sample({"spec": spec, "filters": filters, "history": hist, "final_time": now})
        return (now, completed)

    # unfiltered runs reuse one dispatcher for the whole tree (reset + replay of
    # each branch), filtered runs use fresh objects with the lock-step twin
    _disp.explore(res, spec, filters, visit, check, make_extra=make_extra, on_dispatch=on_dispatch, sig=sig, rebuild="fresh" if filters else "reset")
