"""The dispatcher's query alphabet with reference definitions (C05, C09, C10)."""

from __future__ import annotations

from .. import impl


def _ids_checked(inst, ops):
    """operation ids; flags foreign objects (not the instance's own operations)."""
    out = []
    for o in ops:
        oid = o.operation_id
        own = inst.jobs[o.job_id][o.position_in_job]
        out.append(oid if own is o else ("FOREIGN", oid))
    return out


def _both_styles(pos, kw):
    """The same public call written positionally and with keyword arguments
    (documented parameter names) must give the same answer."""
    return pos if pos == kw else ("keyword-call-differs", pos, kw)


def q_current_time(d, inst):
    return d.current_time()


def q_available_operations(d, inst):
    return _ids_checked(inst, d.available_operations())


def q_raw_ready_operations(d, inst):
    return _ids_checked(inst, d.raw_ready_operations())


def q_unscheduled_operations(d, inst):
    return _ids_checked(inst, d.unscheduled_operations())


def q_scheduled_operations(d, inst):
    return _ids_checked(inst, d.scheduled_operations())


def q_available_machines(d, inst):
    r = list(d.available_machines())
    return ("dup", sorted(r)) if len(set(r)) != len(r) else sorted(r)


def q_available_jobs(d, inst):
    r = list(d.available_jobs())
    return ("dup", sorted(r)) if len(set(r)) != len(r) else sorted(r)


def q_completed_operations(d, inst):
    r = _ids_checked(inst, list(d.completed_operations()))
    return sorted(r, key=repr) if any(isinstance(x, tuple) for x in r) else sorted(r)


def q_uncompleted_operations(d, inst):
    r = _ids_checked(inst, d.uncompleted_operations())
    return sorted(r, key=repr) if any(isinstance(x, tuple) for x in r) else sorted(r)


def q_ongoing_operations(d, inst):
    return sorted(impl.snap_sop(s) for s in d.ongoing_operations())


def q_earliest_start_times(d, inst):
    """earliest_start_time of every ready operation (job order)."""
    out, kw = [], []
    nxt = list(d.job_next_operation_index)
    for j, p in enumerate(nxt):
        if p < len(inst.jobs[j]):
            out.append(d.earliest_start_time(inst.jobs[j][p]))
    for j, p in enumerate(nxt):
        if p < len(inst.jobs[j]):
            kw.append(d.earliest_start_time(operation=inst.jobs[j][p]))
    return _both_styles(out, kw)


def q_next_operations(d, inst):
    out, kw = [], []
    for j in range(inst.num_jobs):
        try:
            out.append(d.next_operation(j).operation_id)
        except Exception as e:
            out.append(type(e).__name__)
    for j in range(inst.num_jobs):
        try:
            kw.append(d.next_operation(job_id=j).operation_id)
        except Exception as e:
            kw.append(type(e).__name__)
    return _both_styles(out, kw)


def q_is_scheduled(d, inst):
    return _both_styles(
        [d.is_scheduled(o) for job in inst.jobs for o in job],
        [d.is_scheduled(operation=o) for job in inst.jobs for o in job],
    )


def q_is_ready(d, inst):
    return _both_styles(
        [d.is_operation_ready(o) for job in inst.jobs for o in job],
        [d.is_operation_ready(operation=o) for job in inst.jobs for o in job],
    )


def q_start_times(d, inst):
    """start_time(op, m) for every ready op and eligible machine."""
    out = []
    for j, p in enumerate(d.job_next_operation_index):
        if p < len(inst.jobs[j]):
            o = inst.jobs[j][p]
            out.append(tuple(d.start_time(o, m) for m in o.machines))
    kw = []
    for j, p in enumerate(list(d.job_next_operation_index)):
        if p < len(inst.jobs[j]):
            o = inst.jobs[j][p]
            kw.append(tuple(d.start_time(operation=o, machine_id=m) for m in o.machines))
    return _both_styles(out, kw)


# name, call, spec(st, filters)
def _spec_next_ops(st, filters):
    ref = st.ref
    return [
        ref.op_id[(j, st.nxt[j])] if st.nxt[j] < ref.jlen[j] else "ValidationError"
        for j in range(ref.J)
    ]


QUERIES = [
    ("current_time", q_current_time, lambda st, f: st.now(f)),
    ("available_operations", q_available_operations, lambda st, f: st.available(f)),
    ("raw_ready_operations", q_raw_ready_operations, lambda st, f: st.ready()),
    ("unscheduled_operations", q_unscheduled_operations, lambda st, f: st.unscheduled()),
    ("scheduled_operations", q_scheduled_operations, lambda st, f: st.scheduled()),
    (
        "available_machines",
        q_available_machines,
        lambda st, f: sorted({m for o in st.available(f) for m in st.ref.ops[o][2]}),
    ),
    (
        "available_jobs",
        q_available_jobs,
        lambda st, f: sorted({st.ref.ops[o][0] for o in st.available(f)}),
    ),
    ("completed_operations", q_completed_operations, lambda st, f: st.completed(f)),
    (
        "uncompleted_operations",
        q_uncompleted_operations,
        lambda st, f: sorted(st.unscheduled() + st.ongoing(f)),
    ),
    (
        "ongoing_operations",
        q_ongoing_operations,
        lambda st, f: sorted((o, st.where[o][1], st.where[o][0]) for o in st.ongoing(f)),
    ),
    (
        "earliest_start_time",
        q_earliest_start_times,
        lambda st, f: [st.est(o) for o in st.ready()],
    ),
    ("next_operation", q_next_operations, _spec_next_ops),
    (
        "is_scheduled",
        q_is_scheduled,
        lambda st, f: [o in st.where for o in range(st.ref.N)],
    ),
    (
        "is_operation_ready",
        q_is_ready,
        lambda st, f: [o in st.ready() for o in range(st.ref.N)],
    ),
    (
        "start_time",
        q_start_times,
        lambda st, f: [tuple(st.start(o, m) for m in st.ref.ops[o][2]) for o in st.ready()],
    ),
]

ZERO_ARG = QUERIES[:10]
QNAMES = [q[0] for q in QUERIES]


def ask_all(d, inst, queries=QUERIES):
    return [(name, call(d, inst)) for name, call, _ in queries]


def spec_all(st, filters, queries=QUERIES):
    return [(name, spec(st, filters)) for name, _, spec in queries]


def observer_views(obs, inst):
    """UnscheduledOperationsObserver views."""
    return (
        _ids_checked(inst, list(obs.unscheduled_operations)),
        obs.num_unscheduled_operations,
        [_ids_checked(inst, list(dq)) for dq in obs.unscheduled_operations_per_job],
    )


def spec_observer_views(st):
    ref = st.ref
    return (
        st.unscheduled(),
        ref.N - len(st.hist),
        [
            [ref.op_id[(j, p)] for p in range(st.nxt[j], ref.jlen[j])]
            for j in range(ref.J)
        ],
    )
