"""C01 - every dispatch history yields a feasible schedule (DESIGN 3/C01)."""

from __future__ import annotations

from .. import families as F
from .. import impl
from ..core import Res
from ..refmodel import Ref, feasibility_errors, filter_configs
from . import _disp

PROPERTY = "C01"
CHUNK = 16
RULE = (
    "Every dispatch history (every ready operation x every eligible machine at every "
    "step) of every instance of the family is executed on a real Dispatcher, for each "
    "filter configuration; after every step the schedule is checked by an independent "
    "feasibility checker and against the reference schedule. A case is one node of the "
    "history tree (a distinct history prefix under one filter configuration); "
    "non-trivial = history with >= 2 steps involving >= 2 jobs."
)
ASSUMPTIONS = [
    "verdict is relative to the instance families listed under bounds (<= 4 ops exhaustively, fixed probes up to 10 ops)",
    "reference model (jslmc/refmodel.py) transcribes the documented dispatching semantics",
]
BOUNDS = {
    "quick": "K3 complete x 17 filter configs; K3r (machine lists in descending order) x 5 configs; K4[seed%16::16] x {none, 4 singles}; K5 (five operations)[seed%128::128] x {none, default pair}; probes P x {none, dominated+non_idle}",
    "thorough": "K3, K4 complete x 17 filter configs (K4: none + 4 singles + pairs on [::4]); M3 x {none,dominated}; NF5[::8]; probes x 5 configs; TLC cross-check on 3 instances",
}

CFG17 = filter_configs(2)
CFG5 = [()] + [(f,) for f in ("dominated_operations", "non_immediate_machines", "non_idle_machines", "non_immediate_operations")]
DEFAULT_PAIR = ("dominated_operations", "non_idle_machines")


def cases(tier, seed):
    out = []
    for spec in F.K3():
        out.append(("tree", spec, tuple(CFG17)))
    for spec in F.K3r():
        out.append(("tree", spec, tuple(CFG5)))
    if tier == "quick":
        for spec in F.sliced(F.K4(), seed % 16, 16):
            out.append(("tree", spec, tuple(CFG5)))
        for spec in F.P_ALL + F.P_HUGE:
            out.append(("tree", spec, ((), DEFAULT_PAIR)))
        for spec in F.sliced(F.K5(), seed % 128, 128):
            out.append(("tree", spec, ((), DEFAULT_PAIR)))
        out.append(("tlc", 1))
    else:
        for i, spec in enumerate(F.K4()):
            out.append(("tree", spec, tuple(CFG17 if i % 4 == 0 else CFG5)))
        for spec in F.M3():
            out.append(("tree", spec, ((), ("dominated_operations",))))
        for spec in F.sliced(F.NF5(), seed % 8, 8):
            out.append(("tree", spec, ((),)))
        for spec in F.sliced(F.K5(), seed % 16, 16):
            out.append(("tree", spec, ((), DEFAULT_PAIR)))
        for spec in F.P_ALL:
            out.append(("tree", spec, tuple(CFG5) + (DEFAULT_PAIR,)))
        for k in range(3):
            out.append(("tlc", k))
    return out


def heavy(case):
    return case[0] == "tlc" or F.n_ops(case[1]) >= 5


def run_case(case) -> Res:
    res = Res()
    if case[0] == "tlc":
        from ..tlc import run_tlc_case

        run_tlc_case(res, case[1], "C01")
        return res
    _, spec, cfgs = case
    fp0 = None
    for filters in cfgs:
        run_tree(res, spec, filters)
    if len(res.samples) == 0:
        res.sample({"spec": spec, "filters": cfgs[-1], "histories": "all"})
    return res


def run_tree(res, spec, filters):
    check = "feasible_after_every_step"
    sig = {"filters": "+".join(filters) if filters else "none"}

    def pre_dispatch(live):
        # let the filter and the memo interfere if they can
        live.d.available_operations()
        live.d.current_time()

    def visit(hist, live, parent_obs, ref):
        d = live.d
        snap = impl.snap_schedule(d.schedule)
        errs = feasibility_errors(ref, snap)
        st = ref.state(hist)
        if errs:
            res.violation(
                check, "infeasible", sig=sig, spec=spec, filters=filters,
                history=hist, errors=errs[:5], schedule=snap,
            )
        expected = tuple(
            tuple((o, s, m) for (o, s, _) in ml) for m, ml in enumerate(st.sched)
        )
        if snap != expected:
            res.violation(
                check, "schedule-differs-from-reference", sig=sig, spec=spec,
                filters=filters, history=hist, expected=expected, observed=snap,
            )
        complete = d.schedule.is_complete()
        if complete != (len(hist) == ref.N):
            res.violation(
                check, "is_complete-wrong", sig=sig, spec=spec, filters=filters,
                history=hist, observed=complete, n_dispatched=len(hist), n_ops=ref.N,
            )
        # "each operation appears at most once": a repeated request for an
        # operation that is already scheduled must not get into the schedule
        if hist and not filters:
            for op_id in st.where:
                j, p, ms, _ = ref.ops[op_id]
                d3 = impl.mk_dispatcher(live.inst, filters)
                impl.replay(d3, hist)
                try:
                    d3.dispatch(live.inst.jobs[j][p], ms[0])
                except Exception:  # noqa: BLE001  (rejected: fine)
                    continue
                res.add("transitions")
                e3 = feasibility_errors(ref, impl.snap_schedule(d3.schedule))
                if e3:
                    res.violation(check, "operation-scheduled-twice", sig=sig, spec=spec, filters=filters, history=hist, repeated_operation=op_id, errors=e3[:3])
        # a further episode on a dispatcher that was reset at this point: the
        # same clauses must hold (feasible after every step, complete exactly
        # after one accepted dispatch per operation)
        if hist and (len(hist) == ref.N or len(hist) == 1):
            d2 = impl.mk_dispatcher(live.inst, filters)
            impl.replay(d2, hist)
            d2.reset()
            h2 = hist if len(hist) == ref.N else next(ref.all_histories())
            for k, c in enumerate(h2, start=1):
                if d2.schedule.is_complete():
                    res.violation(check, "is_complete-wrong-after-reset", sig=sig, spec=spec, filters=filters, history=hist, second_episode=h2[: k - 1])
                    break
                impl.dispatch(d2, *c)
                res.add("transitions")
                e2 = feasibility_errors(ref, impl.snap_schedule(d2.schedule))
                if e2:
                    res.violation(check, "infeasible-after-reset", sig=sig, spec=spec, filters=filters, history=hist, second_episode=h2[:k], errors=e2[:4])
                    break
            else:
                if not d2.schedule.is_complete():
                    res.violation(check, "is_complete-wrong-after-reset", sig=sig, spec=spec, filters=filters, history=hist, second_episode=h2)
        return None

    fp_before = []

    def make_extra(inst, d):
        fp_before.append(impl.snap_instance_light(inst))
        return None

    # single-filter configurations reuse ONE dispatcher for the whole tree
    # (reset + replay of each branch), the others build fresh objects
    _disp.explore(
        res, spec, filters, visit, check, pre_dispatch=pre_dispatch,
        make_extra=make_extra, sig=sig, rebuild="reset" if len(filters) == 1 else "fresh",
    )
