"""C12 - reset makes everything indistinguishable from new."""

from __future__ import annotations

import itertools

from .. import families as F
from .. import impl
from ..core import Res
from ..refmodel import Ref
from . import _env, _snapall

PROPERTY = "C12"
CHUNK = 2
RULE = (
    "Event sequences h1 . reset . h2 (and reset.reset, reset at the initial state, several "
    "episodes chained on the same objects) are executed on a real Dispatcher with every "
    "built-in observer attached, for every history prefix h1 and every complete history h2 "
    "of the instance and for every order in which the inter-dependent observers "
    "(unscheduled-operations, remaining-operations, is-completed, residual graph updater) are "
    "requested; and on real SingleJobShopGraphEnv objects (4 graph builders x 2 rewards) as "
    "reset . a* . reset . a*. Oracle (differential): the complete snapshot after reset equals "
    "the snapshot of freshly constructed objects, and the snapshot after every step of h2 "
    "equals the one of the same prefix on fresh objects. Case = one (creation order, h1, h2) "
    "execution; non-trivial = h1 non-empty."
)
ASSUMPTIONS = [
    "bounded to the listed instance families (|h1| x |h2| is quadratic)",
    "observers whose constructor fails on an instance (C11 clause) are left out of that instance's snapshot",
]
BOUNDS = {
    "quick": "dispatcher+observers: K3+ (positive durations, <= 3 ops) x 28 creation orders rotated over instances (each instance: 2 orders), every h1, a rotating window of 2-4 complete h2 per h1; 2x2 probe x 28 orders; env: K3+[seed%6::6] x 4 builders x 2 rewards, 2x2 probe",
    "thorough": "K3 complete: <= 2 operations x all 28 orders and all h2; 3 operations x 6 orders in rotation with a window of 4-8 h2; K4+[seed%4::4] x 2 orders; small probes x 24 orders; env: K3+ complete, K4+[::16], small probes",
}

PRE = ("is_ready", "earliest_start_time", "duration", "is_scheduled", "position_in_job")
DEP = ("unscheduled", "remaining_operations", "is_completed", "updater")
POST = ("composite", "makespan_reward", "idle_reward", "history")
ORDERS = [PRE + perm + POST for perm in itertools.permutations(DEP)]
# "only the dependent one": it creates its dependencies itself
ORDERS += [("updater",), ("is_completed",), ("remaining_operations",), ("is_completed", "composite")]


def cases(tier, seed):
    out = []
    n_orders = len(ORDERS)
    if tier == "quick":
        for i, s in enumerate(F.K3_pos()):
            idx = [(2 * i + k + seed) % n_orders for k in range(2)]
            out.append(("observers", s, tuple(idx), _env.BUILDERS[i % 4], 2))
        out.append(("observers", F.P_2X2, tuple(range(n_orders)), "disjunctive", 2))
        # graphs that were pruned (public remove_node) before the updater got them
        for i, s in enumerate(F.sliced(F.K3_pos(), seed % 8, 8)):
            out.append(("observers", s, ((i + seed) % 24, 24), ("disjunctive_without_sink", "agent_task_without_last_machine")[i % 2], 2))
        out.append(("observers", F.P_ZERO, tuple(range(0, n_orders, 4)), "agent_task", 2))
        for s in F.sliced(F.K3_pos(), seed % 6, 6):
            out.append(("env", s, 2))
        out.append(("env", F.P_2X2, 2))
    else:
        for i, s in enumerate(F.K3()):
            if F.n_ops(s) <= 2:
                out.append(("observers", s, tuple(range(n_orders)), _env.BUILDERS[i % 4], None))
            else:
                idx = tuple((7 * i + k * 5 + seed) % n_orders for k in range(6))
                out.append(("observers", s, idx, _env.BUILDERS[i % 4], 4))
        for i, s in enumerate(F.sliced(F.K4_pos(), seed % 4, 4)):
            out.append(("observers", s, ((2 * i) % n_orders, (2 * i + 1) % n_orders), _env.BUILDERS[i % 4], 3))
        for s in F.P_SMALL:
            out.append(("observers", s, tuple(range(0, n_orders, 3)), "complete_agent_task", 2))
        for i, s in enumerate(F.K3_pos()):
            out.append(("observers", s, ((i + seed) % 24, 24), ("disjunctive_without_sink", "agent_task_without_last_machine")[i % 2], 3))
        for s in F.K3_pos():
            out.append(("env", s, None))
        for s in F.sliced(F.K4_pos(), seed % 16, 16):
            out.append(("env", s, 3))
        for s in F.P_SMALL:
            out.append(("env", s, 2))
    return out


def heavy(case):
    return F.n_ops(case[1]) >= 4


def run_case(case) -> Res:
    res = Res()
    if case[0] == "observers":
        _, spec, order_idx, builder, budget = case
        for oi in order_idx:
            run_observers(res, spec, oi, builder, budget)
    else:
        run_env(res, case[1], case[2])
    return res


def pick_leaves(leaves, i, h1, n_ops, budget):
    """h2 set replayed after h1: all of them (budget None) or a rotating
    window, so that over all h1 every h2 is used several times."""
    if budget is None or len(leaves) <= budget:
        return leaves
    k = budget * 2 if len(h1) in (0, n_ops) else budget
    return [leaves[(i * budget + j) % len(leaves)] for j in range(min(k, len(leaves)))]


def all_nodes(ref):
    seen = []
    s = set()
    for full in ref.all_histories():
        for k in range(len(full) + 1):
            h = full[:k]
            if h not in s:
                s.add(h)
                seen.append(h)
    return seen


def run_observers(res, spec, order_index, builder, budget=None):
    check = "reset_equals_fresh"
    ref = Ref(spec)
    order = ORDERS[order_index]
    dep_order = [n for n in order if n in DEP]
    sig0 = {"order": ">".join(dep_order) if len(order) > 4 else "only:" + "+".join(order)}

    def build():
        inst = impl.mk_instance(spec)
        d = impl.mk_dispatcher(inst, ())
        observers = _snapall.attach_all(inst, d, builder=builder, order=order, notes=res.note)
        return inst, d, observers

    # fresh traces: snapshot after every prefix, on fresh objects
    fresh = {}
    nodes = all_nodes(ref)
    leaves = [h for h in nodes if len(h) == ref.N]
    for h in leaves:
        inst, d, observers = build()
        if () not in fresh:
            fresh[()] = _snapall.snap_all(d, inst, observers)
        for k, c in enumerate(h, start=1):
            impl.dispatch(d, *c)
            if h[:k] not in fresh:
                fresh[h[:k]] = _snapall.snap_all(d, inst, observers)
    res.add("states", len(nodes))

    for i1, h1 in enumerate(nodes):
        for double in (False, True):
            if double and len(h1) not in (0, 1, ref.N):
                continue
            inst, d, observers = build()
            impl.replay(d, h1)
            d.reset()
            if double:
                d.reset()
            res.add("transitions", len(h1) + 1 + int(double))
            sig = dict(sig0, resets=2 if double else 1)
            after = _snapall.snap_all(d, inst, observers)
            ok = True
            if after != fresh[()]:
                res.violation(check, "state-after-reset-differs-from-fresh", sig=sig, spec=spec, builder=builder, order=order, h1=h1, components=_snapall.diff_keys(after, fresh[()]))
                ok = False
            # replay complete histories, episodes chained by reset
            for h2 in pick_leaves(leaves, i1, h1, ref.N, budget):
                res.add("evaluations")
                res.add("traces")
                if h1:
                    res.add("nontrivial")
                if not ok:
                    break
                for k, c in enumerate(h2, start=1):
                    impl.dispatch(d, *c)
                    res.add("transitions")
                    now = _snapall.snap_all(d, inst, observers)
                    if now != fresh[h2[:k]]:
                        res.violation(check, "episode-after-reset-differs-from-fresh-episode", sig=sig, spec=spec, builder=builder, order=order, h1=h1, h2_prefix=h2[:k], components=_snapall.diff_keys(now, fresh[h2[:k]]))
                        ok = False
                        break
                if not ok:
                    break
                d.reset()
                after = _snapall.snap_all(d, inst, observers)
                if after != fresh[()]:
                    res.violation(check, "state-after-reset-differs-from-fresh", sig=sig, spec=spec, builder=builder, order=order, h1=h1 + ("reset",) + h2, components=_snapall.diff_keys(after, fresh[()]))
                    ok = False
    if len(res.samples) < 1 and ref.N >= 3:
        res.sample({"spec": spec, "creation_order": order, "builder": builder, "h1_count": len(nodes), "h2_count": len(leaves), "example": {"h1": nodes[len(nodes) // 2], "h2": leaves[-1]}})


def run_env(res, spec, budget=None):
    check = "env_reset_equals_fresh"
    ref = Ref(spec)
    nodes = all_nodes(ref)
    leaves = [h for h in nodes if len(h) == ref.N]
    observers = tuple((o, None) for o in _env.OBSERVER_TYPES)
    for b in _env.BUILDERS:
        for reward in ("makespan", "idle"):
            sig = {"builder": b, "reward": reward}

            def build():
                return _env.mk_env(spec, builder_name=b, observers=observers, reward=reward)

            def step_record(env, c):
                obs, r, done, trunc, info = env.step(c)
                return ({k: _snapall.arr(v) for k, v in obs.items()}, r, done, trunc, tuple(impl.ids(info["available_operations"])))

            fresh = {}
            fresh_step = {}
            for h in leaves:
                env = build()
                obs0, _ = env.reset()
                if () not in fresh:
                    fresh[()] = _snapall.snap_env(env)
                    fresh_step[()] = {k: _snapall.arr(v) for k, v in obs0.items()}
                for k, c in enumerate(h, start=1):
                    rec = step_record(env, c)
                    if h[:k] not in fresh:
                        fresh[h[:k]] = _snapall.snap_env(env)
                        fresh_step[h[:k]] = rec
            res.add("states", len(nodes))
            for i1, h1 in enumerate(nodes):
                env = build()
                env.reset()
                for c in h1:
                    env.step(c)
                obs0, _ = env.reset()
                res.add("transitions", len(h1) + 2)
                ok = True
                if {k: _snapall.arr(v) for k, v in obs0.items()} != fresh_step[()] or _snapall.snap_env(env) != fresh[()]:
                    res.violation(check, "env-after-reset-differs-from-fresh", sig=sig, spec=spec, h1=h1, components=_snapall.diff_keys(_snapall.snap_env(env), fresh[()]))
                    ok = False
                for h2 in pick_leaves(leaves, i1, h1, ref.N, budget):
                    res.add("evaluations")
                    res.add("traces")
                    if h1:
                        res.add("nontrivial")
                    if not ok:
                        break
                    for k, c in enumerate(h2, start=1):
                        rec = step_record(env, c)
                        res.add("transitions")
                        if rec != fresh_step[h2[:k]]:
                            bad = [i for i in range(5) if rec[i] != fresh_step[h2[:k]][i]]
                            res.violation(check, "episode-after-reset-differs-from-first-episode", sig=sig, spec=spec, h1=h1, h2_prefix=h2[:k], differing=[("obs", "reward", "done", "truncated", "available")[i] for i in bad])
                            ok = False
                            break
                        if k == len(h2) and _snapall.snap_env(env) != fresh[h2[:k]]:
                            res.violation(check, "env-state-differs-from-first-episode", sig=sig, spec=spec, h1=h1, h2_prefix=h2[:k], components=_snapall.diff_keys(_snapall.snap_env(env), fresh[h2[:k]]))
                            ok = False
                            break
                    if not ok:
                        break
                    env.reset()
