"""C02 - start times forced, bookkeeping matches, histories replay."""

from __future__ import annotations

from .. import families as F
from .. import impl
from ..core import Res
from ..refmodel import Ref
from . import _disp

PROPERTY = "C02"
CHUNK = 16
RULE = (
    "Every dispatch history of every instance of the family is executed on a real "
    "Dispatcher; after every step the start time of the new operation is compared with "
    "max(job predecessor end, end of last operation on the machine), the tracking "
    "vectors / count / makespan with values derived from the schedule content, and the "
    "recorded HistoryObserver history is re-dispatched (a) on a fresh dispatcher, (b) on "
    "a dispatcher that was reset, (c) through the real create_gantt_chart_frames replay "
    "loop with a recording plot function; every revisit of a canonical state through a "
    "different history is compared with the first visit. Case = one history prefix; "
    "non-trivial = >= 2 steps involving >= 2 jobs."
)
ASSUMPTIONS = [
    "bounded to the listed instance families",
    "create_gantt_chart_frames is driven with a stub Figure (savefig is a no-op); its replay loop is the real code",
]
BOUNDS = {
    "quick": "K3 complete; K3r (flexible machine lists in descending order); K4[seed%16::16]; K5 (five operations)[seed%128::128]; probes P (up to 10 ops) - all histories, every prefix",
    "thorough": "K3, K4 complete; M3; NF5[seed%8::8]; probes P; TLC cross-check on 3 instances (every edge replayed)",
}


def cases(tier, seed):
    out = [("tree", spec) for spec in F.K3()]
    out += [("tree", spec) for spec in F.K3r()]
    if tier == "quick":
        out += [("tree", s) for s in F.sliced(F.K4(), seed % 16, 16)]
        out += [("tree", s) for s in F.P_ALL + F.P_HUGE]
        out += [("tree", s) for s in F.sliced(F.K5(), seed % 128, 128)]
        out.append(("tlc", 0))
    else:
        out += [("tree", s) for s in F.K4()]
        out += [("tree", s) for s in F.M3()]
        out += [("tree", s) for s in F.sliced(F.NF5(), seed % 8, 8)]
        out += [("tree", s) for s in F.sliced(F.K5(), seed % 16, 16)]
        out += [("tree", s) for s in F.P_ALL]
        out += [("tlc", k) for k in range(3)]
    return out


_STUB = None


def stub_figure():
    """One reusable real Figure whose savefig only records the path."""
    global _STUB
    if _STUB is None:
        from matplotlib.figure import Figure

        class StubFigure(Figure):
            saved = []

            def savefig(self, fname, *a, **k):  # noqa: D401
                StubFigure.saved.append(str(fname))

        _STUB = StubFigure()
    return _STUB


def frames_replay(inst, history):
    """Push a recorded history through the real frame-creation loop.

    Returns the list of schedule snapshots seen by the plot function."""
    from job_shop_lib.visualization import create_gantt_chart_frames

    seen = []
    fig = stub_figure()
    type(fig).saved.clear()

    def plot(schedule, makespan=None, available_operations=None, current_time=None):
        seen.append(
            (
                impl.snap_schedule(schedule),
                makespan,
                tuple(impl.ids(available_operations or [])),
                current_time,
            )
        )
        return fig

    create_gantt_chart_frames("/nonexistent-jslmc-frames", inst, None, plot, True, history)
    return seen, list(type(fig).saved)


def heavy(case):
    return case[0] == "tlc" or F.n_ops(case[1]) >= 5


def run_case(case) -> Res:
    res = Res()
    if case[0] == "tlc":
        from ..tlc import run_tlc_case

        run_tlc_case(res, case[1], "C02")
        return res
    spec = case[1]
    check = "forced_start_and_tracking"
    first_visit = {}

    def make_extra(inst, d):
        from job_shop_lib.dispatching import HistoryObserver

        return HistoryObserver(d)

    def full_snapshot(d):
        return (
            impl.snap_schedule_full(d.schedule),
            impl.snap_tracking(d),
            d.schedule.num_scheduled_operations,
            d.schedule.makespan(),
            d.schedule.is_complete(),
        )

    def visit(hist, live, parent_obs, ref):
        d = live.d
        st = ref.state(hist)
        snap = impl.snap_schedule(d.schedule)
        # 1. forced start of the operation just dispatched (from the
        #    implementation's own schedule and from the reference)
        if hist:
            j, m = hist[-1]
            op = st.order[-1]
            ml = snap[m]
            if not ml or ml[-1][0] != op:
                res.violation(check, "last-op-not-last-on-machine", spec=spec, history=hist, schedule=snap)
            else:
                start = ml[-1][1]
                prev_st = ref.state(hist[:-1])
                want = max(prev_st.jf[j], prev_st.mf[m])
                if start != want:
                    res.violation(
                        check, "start-not-max-of-job-and-machine", spec=spec,
                        history=hist, expected=want, observed=start,
                    )
        # 2. tracking derived from the schedule content
        tr = impl.snap_tracking(d)
        want_tr = (tuple(st.mf), tuple(st.jf), tuple(st.nxt))
        if tr != want_tr:
            res.violation(check, "tracking-differs", spec=spec, history=hist, expected=want_tr, observed=tr)
        if d.schedule.num_scheduled_operations != len(hist):
            res.violation(
                check, "num_scheduled-wrong", spec=spec, history=hist,
                observed=d.schedule.num_scheduled_operations,
            )
        if d.schedule.makespan() != st.makespan():
            res.violation(
                check, "makespan-wrong", spec=spec, history=hist,
                expected=st.makespan(), observed=d.schedule.makespan(),
            )
        expected = tuple(tuple((o, s, mm) for (o, s, _) in ml) for mm, ml in enumerate(st.sched))
        if snap != expected:
            res.violation(check, "schedule-differs-from-reference", spec=spec, history=hist, expected=expected, observed=snap)
        # 3. pure function of the state: differential on revisits
        key = st.canon()
        fs = full_snapshot(d)
        if key in first_visit:
            if first_visit[key][1] != fs:
                res.violation(
                    "same_state_same_snapshot", "path-dependent-state", spec=spec,
                    history=hist, other_history=first_visit[key][0],
                )
            res.add("revisits")
        else:
            first_visit[key] = (hist, fs)
        # 4. the recorded history replays (fresh / reset / frames)
        recorded = live.extra.history
        rec_pairs = [(s.operation.operation_id, s.machine_id) for s in recorded]
        want_pairs = [(o, st.where[o][0]) for o in st.order]
        if rec_pairs != want_pairs:
            res.violation("history_replay", "history-observer-differs", spec=spec, history=hist, expected=want_pairs, observed=rec_pairs)
            return None
        from job_shop_lib.dispatching import Dispatcher

        fresh = Dispatcher(live.inst)
        steps_fresh = []
        for s in recorded:
            fresh.dispatch(s.operation, s.machine_id)
            steps_fresh.append(impl.snap_schedule(fresh.schedule))
        res.add("replays")
        if full_snapshot(fresh) != fs:
            res.violation("history_replay", "fresh-replay-differs", spec=spec, history=hist)
        # (b) a dispatcher that went through another history, then reset
        other = Dispatcher(live.inst)
        # drive it somewhere else first: the leftmost complete history prefix
        left = next(ref.all_histories())
        right = rightmost
        for c in (right if len(hist) % 2 else left)[: max(1, len(hist))]:
            impl.dispatch(other, *c)
        if len(hist) % 3 != 2:
            # queried once, at the same number of dispatches as the replay below
            # will reach: anything memoised per count / per state must not leak
            full_snapshot(other)
            other.current_time()
            other.available_operations()
        other.reset()
        steps_reset = []
        for s in recorded:
            other.dispatch(s.operation, s.machine_id)
            steps_reset.append(impl.snap_schedule(other.schedule))
        res.add("replays")
        if full_snapshot(other) != fs or steps_reset != steps_fresh:
            res.violation("history_replay", "reset-replay-differs", spec=spec, history=hist)
        # (c) the GIF/video mechanism
        if recorded:
            seen, saved = frames_replay(live.inst, recorded)
            res.add("replays")
            want_seen = []
            for k in range(1, len(hist) + 1):
                sk = ref.state(hist[:k])
                want_seen.append(tuple(tuple((o, s, mm) for (o, s, _) in ml) for mm, ml in enumerate(sk.sched)))
            if [x[0] for x in seen] != want_seen:
                res.violation("history_replay", "frames-replay-differs", spec=spec, history=hist, observed=[x[0] for x in seen], expected=want_seen)
        if len(hist) == ref.N and _disp.interleaves(hist) and ref.N >= 3:
            res.sample({"spec": spec, "history": hist, "schedule(op,start,machine)": snap})
        return None

    rightmost = list(Ref(spec).all_histories())[-1]
    _disp.explore(res, spec, (), visit, check, make_extra=make_extra)
    return res
