"""C10 - observers see every dispatch once, in order, after it took effect.

Explicit-state BFS over a small protocol model (dispatch history since the last
reset, ordered subscriber list, detached recorders, memo flag).  Every
transition of the model is executed on the real Dispatcher (the representative
event sequence of the source state is replayed on fresh objects, then the
event) and the notifications actually received are compared with the model's.
"""

from __future__ import annotations

from collections import deque

from .. import families as F
from .. import impl
from ..core import Res
from ..refmodel import Ref
from ._queries import ask_all, spec_all

PROPERTY = "C10"
CHUNK = 1
RULE = (
    "Breadth-first search over the reachable states of the subscription protocol model "
    "(canonical schedule since last reset, ordered subscriber kinds, detached recorders, "
    "memo-populated flag). Events: every valid dispatch, invalid dispatches, reset, construct "
    "+ subscribe a recorder of 3 kinds (plain, subclass, singleton), construct unsubscribed, "
    "unsubscribe k-th, re-subscribe detached, second construction of a singleton type "
    "(subscribe True/False), create_or_get_observer for 4 types x 3 conditions (any / never / "
    "only the last subscribed one). Every transition is executed on the real Dispatcher after replaying the state's "
    "representative event sequence on fresh objects; recorders log inside update()/reset() a "
    "global sequence number and a snapshot of the schedule and of all queries. Oracle: "
    "notifications = model's (once each, subscription order, post-state snapshot), faults "
    "notify nobody, HistoryObserver.history = dispatches since last reset, singleton guard "
    "raises and leaves subscribers unchanged, create_or_get returns the first subscribed "
    "match by identity. Case = one (state, event) transition; non-trivial = source state "
    "reached by >= 2 events."
)
ASSUMPTIONS = [
    "bounded: <= 3 recorder objects alive, BFS depth bound as stated, instances listed under bounds",
    "double subscription of the same object through bare subscribe() is outside the alphabet (no guard documented)",
]
BOUNDS = {
    "quick": "instances: 2x2 (10/20/15/10), flexible 2-job (2+1 ops), 3 single-op jobs with zero duration; <= 3 recorders; BFS depth 6, recorder kinds in pairs",
    "thorough": "same + flexible 3x2 probe; BFS depth 7 (all three kinds) and 8 (pairs of kinds)",
}

INSTANCES = [
    F.P_2X2,
    ((((0, 1), 2), ((1,), 1)), (((0,), 1),)),
    ((((0,), 0),), (((0,), 1),), (((1,), 0),)),
    F.P_FLEX_3X2,
]
MAX_REC = 3


def cases(tier, seed):
    if tier == "quick":
        return [
            ("protocol", INSTANCES[i], 6, kinds)
            for i in range(3)
            for kinds in (("R", "S"), ("B", "S"), ("R", "B"))
        ]
    out = [("protocol", INSTANCES[i], 7, ("R", "B", "S")) for i in range(4)]
    out += [
        ("protocol", INSTANCES[i], 8, kinds)
        for i in range(4)
        for kinds in (("R", "S"), ("B", "S"), ("R", "B"))
    ]
    return out


def heavy(case):
    return True


# ---------------------------------------------------------------------------
# recorder classes (created lazily: need the library)
# ---------------------------------------------------------------------------
_CLS = {}


def classes():
    if _CLS:
        return _CLS
    from job_shop_lib.dispatching import DispatcherObserver, HistoryObserver

    class Recorder(DispatcherObserver):
        _is_singleton = False

        def __init__(self, dispatcher, *, subscribe=True, log=None, uid=None, inst=None):
            self.log = log
            self.uid = uid
            self.inst = inst
            super().__init__(dispatcher, subscribe=subscribe)

        def _snap(self):
            d = self.dispatcher
            return (impl.snap_schedule(d.schedule), impl.snap_tracking(d), tuple((n, repr(v)) for n, v in ask_all(d, self.inst)))

        def update(self, scheduled_operation):
            self.log.append((self.uid, "update", impl.snap_sop(scheduled_operation), self._snap()))

        def reset(self):
            self.log.append((self.uid, "reset", None, self._snap()))

    class SubRecorder(Recorder):
        pass

    class SingletonRecorder(Recorder):
        _is_singleton = True

    _CLS.update(R=Recorder, B=SubRecorder, S=SingletonRecorder, H=HistoryObserver)
    return _CLS


def is_instance_kind(kind, of):
    """isinstance relation between the recorder kinds."""
    if of == "R":
        return kind in ("R", "B", "S")
    return kind == of


# ---------------------------------------------------------------------------
# the model
# ---------------------------------------------------------------------------


class Model:
    """Reference protocol state. subs/detached hold (kind, uid)."""

    def __init__(self, ref, kinds=("R", "B", "S")):
        self.ref = ref
        self.kinds = kinds
        self.hist = ()
        self.subs = [("H", 0)]  # a HistoryObserver subscribed from the start
        self.detached = []
        self.memo = False
        self.next_uid = 1
        self.history_since_reset = []  # what HistoryObserver must show

    def key(self):
        st = self.ref.state(self.hist)
        return (
            st.canon(),
            tuple(k for k, _ in self.subs),
            tuple(sorted(k for k, _ in self.detached)),
            len(self.subs) + len(self.detached) - (1 if any(k == "H" for k, _ in self.subs + self.detached) else 0),
        )

    def n_recorders(self):
        return sum(1 for k, _ in self.subs + self.detached if k != "H")

    def enabled(self):
        ref = self.ref
        st = ref.state(self.hist)
        ev = []
        for c in ref.children(self.hist):
            ev.append(("dispatch", c))
        # two invalid requests (C09 alphabet, one of each family)
        for j in range(ref.J):
            if st.nxt[j] < ref.jlen[j]:
                ms = ref.jobs[j][st.nxt[j]][0]
                bad = [m for m in range(ref.M + 1) if m not in ms]
                ev.append(("fault", ("ineligible", j, st.nxt[j], bad[0])))
                break
        for j in range(ref.J):
            if st.nxt[j] > 0:
                ev.append(("fault", ("already-scheduled", j, 0, ref.jobs[j][0][0][0])))
                break
        ev.append(("reset", None))
        if self.n_recorders() < MAX_REC:
            for kind in self.kinds:
                ev.append(("new", (kind, True)))
            ev.append(("new", (self.kinds[0], False)))
            if "S" in self.kinds:
                ev.append(("new", ("S", False)))
        for i in range(len(self.subs)):
            ev.append(("unsubscribe", i))
        for i in range(len(self.detached)):
            ev.append(("resubscribe", i))
        for kind in ("H",) + tuple(self.kinds) + (("R",) if "R" not in self.kinds else ()):
            ev.append(("create_or_get", (kind, "any")))
            ev.append(("create_or_get", (kind, "never")))
            if kind != "H" and sum(1 for kk, _ in self.subs if is_instance_kind(kk, kind)) >= 2:
                ev.append(("create_or_get", (kind, "last")))
        return ev


# ---------------------------------------------------------------------------
# execution of one event on model + implementation
# ---------------------------------------------------------------------------


class World:
    def __init__(self, spec, kinds=("R", "B", "S")):
        from job_shop_lib.dispatching import Dispatcher

        self.spec = spec
        self.ref = Ref(spec)
        self.inst = impl.mk_instance(spec)
        self.d = Dispatcher(self.inst)
        self.log = []
        self.model = Model(self.ref, kinds)
        self.objs = {0: classes()["H"](self.d)}

    def subscribers_uids(self):
        inv = {id(o): u for u, o in self.objs.items()}
        return [inv.get(id(o), "?") for o in self.d.subscribers]

    def step(self, event, problems):
        """Apply event to model and implementation; append problem strings."""
        kind, arg = event
        m, d, ref = self.model, self.d, self.ref
        cls = classes()
        before_log = len(self.log)
        before_subs = self.subscribers_uids()
        expect = []  # expected new log entries: (uid, what, sop)
        if kind == "dispatch":
            j, mach = arg
            st0 = ref.state(m.hist)
            op = ref.op_id[(j, st0.nxt[j])]
            m.hist = m.hist + ((j, mach),)
            st1 = ref.state(m.hist)
            sop = (op, st1.where[op][1], mach)
            m.history_since_reset.append(sop)
            expect = [(u, "update", sop) for k, u in m.subs if k != "H"]
            m.memo = any(k != "H" for k, _ in m.subs)  # recorders query inside update
            impl.dispatch(d, j, mach)
        elif kind == "fault":
            _, j, p, mach = arg
            try:
                d.dispatch(self.inst.jobs[j][p], mach)
                problems.append(("invalid-request-accepted", arg))
            except Exception:  # noqa: BLE001
                pass
        elif kind == "reset":
            m.hist = ()
            m.history_since_reset = []
            expect = [(u, "reset", None) for k, u in m.subs if k != "H"]
            m.memo = any(k != "H" for k, _ in m.subs)
            d.reset()
        elif kind == "new":
            k, sub = arg
            uid = m.next_uid
            must_raise = k == "S" and any(kk == "S" for kk, _ in m.subs)
            try:
                o = cls[k](d, subscribe=sub, log=self.log, uid=uid, inst=self.inst)
                if must_raise:
                    problems.append(("second-singleton-constructed", arg))
                self.objs[uid] = o
                m.next_uid += 1
                (m.subs if sub else m.detached).append((k, uid))
            except Exception as exc:  # noqa: BLE001
                if not must_raise:
                    problems.append(("constructor-raised", arg, repr(exc)[:200]))
                elif type(exc).__name__ != "ValidationError":
                    problems.append(("singleton-guard-wrong-exception", type(exc).__name__))
        elif kind == "unsubscribe":
            k, uid = m.subs.pop(arg)
            m.detached.append((k, uid))
            d.unsubscribe(self.objs[uid])
        elif kind == "resubscribe":
            k, uid = m.detached.pop(arg)
            m.subs.append((k, uid))
            d.subscribe(self.objs[uid])
        elif kind == "create_or_get":
            k, cond = arg
            match = None
            if cond == "any":
                condition = lambda o: True  # noqa: E731
                for kk, uu in m.subs:
                    if is_instance_kind(kk, k):
                        match = uu
                        break
            elif cond == "last":
                # accepts only the LAST subscribed observer of that kind
                cands = [uu for kk, uu in m.subs if is_instance_kind(kk, k)]
                match = cands[-1] if cands else None
                target = self.objs.get(match)
                condition = lambda o, target=target: o is target  # noqa: E731
            else:
                condition = lambda o: False  # noqa: E731
            must_raise = match is None and k in ("S", "H") and any(kk == k for kk, _ in m.subs)
            n_h = sum(1 for kk, _ in m.subs + m.detached if kk == "H")
            can_create = (
                match is not None
                or must_raise
                or (k == "H" and n_h < 2)
                or (k != "H" and m.n_recorders() < MAX_REC)
            )
            if not can_create:
                return  # would exceed the recorder bound: event disabled
            kwargs = {} if k == "H" else dict(log=self.log, uid=m.next_uid, inst=self.inst)
            try:
                o = d.create_or_get_observer(cls[k], condition, **kwargs)
                if must_raise:
                    problems.append(("create_or_get-built-second-singleton", arg))
                if match is not None:
                    if o is not self.objs[match]:
                        problems.append(("create_or_get-did-not-return-first-match", arg, self.subscribers_uids()))
                else:
                    if any(o is x for x in self.objs.values()):
                        problems.append(("create_or_get-returned-non-matching-existing", arg))
                    else:
                        uid = m.next_uid
                        m.next_uid += 1
                        self.objs[uid] = o
                        m.subs.append((k, uid))
            except Exception as exc:  # noqa: BLE001
                if not must_raise:
                    problems.append(("create_or_get-raised", arg, repr(exc)[:200]))
        elif kind == "queries":
            ask_all(d, self.inst)
            m.memo = True
        # ---- compare ------------------------------------------------------
        st = ref.state(m.hist)
        new = self.log[before_log:]
        got = [(u, what, sop) for (u, what, sop, _) in new]
        if got != expect:
            problems.append(("notifications-differ", {"expected": expect, "observed": got}))
        want_snap = (
            tuple(tuple((o, s, mm) for (o, s, _) in ml) for mm, ml in enumerate(st.sched)),
            (tuple(st.mf), tuple(st.jf), tuple(st.nxt)),
            tuple((n, repr(v)) for n, v in spec_all(st, ())),
        )
        for (u, what, sop, snap) in new:
            if snap != want_snap:
                which = [i for i in range(3) if snap[i] != want_snap[i]]
                problems.append(("notified-before-state-took-effect", {"observer": u, "what": what, "stale_parts": which}))
                break
        want_subs = [u for _, u in m.subs]
        if self.subscribers_uids() != want_subs:
            problems.append(("subscriber-list-differs", {"expected": want_subs, "observed": self.subscribers_uids(), "before": before_subs}))
        # HistoryObserver record (object 0) while subscribed since creation
        h_sub = any(k == "H" and u == 0 for k, u in m.subs)
        if h_sub and 0 in self.objs and not getattr(self, "h_detached_once", False):
            hist_obs = [impl.snap_sop(s) for s in self.objs[0].history]
            if hist_obs != m.history_since_reset:
                problems.append(("history-observer-differs", {"expected": m.history_since_reset, "observed": hist_obs}))
        if not h_sub:
            self.h_detached_once = True
        # queries right after the event must describe the new state
        got_q = tuple((n, repr(v)) for n, v in ask_all(d, self.inst))
        if got_q != want_snap[2]:
            problems.append(("queries-after-event-differ", None))
        m.memo = True if kind != "queries" else m.memo


def run_case(case) -> Res:
    _, spec, depth, kinds = case
    res = Res()
    check = "notification_protocol"
    ref = Ref(spec)
    w0 = World(spec, kinds)
    seen = {w0.model.key(): ()}
    enabled_of = {(): w0.model.enabled()}
    frontier = deque([()])
    max_depth = 0
    while frontier:
        seq = frontier.popleft()
        max_depth = max(max_depth, len(seq))
        events = enabled_of.pop(seq)
        for ev in events:
            # source state: replay its representative on fresh objects
            w2 = World(spec, kinds)
            p0 = []
            for e in seq:
                w2.step(e, p0)
            problems = []
            key_before = w2.model.key()
            w2.step(ev, problems)
            res.add("transitions")
            res.add("evaluations")
            if len(seq) >= 2:
                res.add("nontrivial")
            for pr in problems:
                res.violation(check, pr[0], sig={"event": ev[0]}, spec=spec, events=seq + (ev,), detail=pr[1:] if len(pr) > 1 else None)
            k = w2.model.key()
            if k not in seen:
                seen[k] = seq + (ev,)
                if len(seq) + 1 < depth:
                    frontier.append(seq + (ev,))
                    enabled_of[seq + (ev,)] = w2.model.enabled()
                else:
                    res.add("states_at_depth_bound_not_expanded")
        if len(seq) == 4 and len(res.samples) < 2:
            res.sample({"spec": spec, "recorder_kinds": kinds, "event_sequence": seq, "enabled_events": events[:8]})
    res.add("states", len(seen))
    res.add("traces", len(seen))
    res.aux_add("max_depth", max_depth)
    return res


def finalize(total, tier, seed):
    return {"bfs_depth_reached": max(total.aux.get("max_depth", {0}))}
