"""C05 - state queries agree with the schedule, whatever was asked before."""

from __future__ import annotations

import itertools

from .. import families as F
from .. import impl
from ..core import Res
from ..refmodel import Ref, DOM
from . import _disp
from ._queries import QUERIES, ZERO_ARG, ask_all, spec_all, observer_views, spec_observer_views

PROPERTY = "C05"
CHUNK = 8
RULE = (
    "In every reachable state of every instance (all dispatch histories, real Dispatcher, "
    "several filter configurations) all 15 queries are asked forward and in reverse order "
    "and compared with the reference recomputation; for each distinct canonical state every "
    "ordered pair (thorough: triple of the memoised queries) of queries is issued on a "
    "freshly rebuilt state and the last answer compared with the reference; for every "
    "dispatch edge and every reset, each query (and all of them) is asked before the "
    "transition and all queries after it. Queries with arguments are written both positionally and with keyword arguments and must agree. Case = one query sequence in one state; "
    "non-trivial = sequence of >= 2 queries or crossing a transition, in a state reached by "
    ">= 1 dispatch."
)
ASSUMPTIONS = [
    "bounded to the listed instance families and to query sequences of length <= 2 (3 for memoised queries in thorough) per state",
    "available_machines/available_jobs are compared as sets (their order is not promised)",
    "with the dominated-operations filter on instances with zero durations the available list is taken from the implementation (any non-empty ordered sub-list of the ready operations) and every other query is recomputed from it; pairs/edges sub-checks use pinned configurations only",
]
BOUNDS = {
    "quick": "K3 complete: no filter = all ordered query pairs per state + all edges x 16 pre-queries + resets; 5 more filter configs = forward/reverse + edges; K4[seed%16::16] and probes: forward/reverse + pairs on memoised queries",
    "thorough": "K3: all 225 ordered pairs + all ordered triples of the 10 memoised queries + edges x 16 pre-queries; K4 complete: forward/reverse + edges (no filter), K4[seed%4::4]: + ordered pairs of memoised queries and 5 filter configs; M3 small; probes",
}

FILTER_CFGS = [
    ("non_idle_machines",),
    ("non_immediate_operations",),
    ("non_immediate_machines",),
    ("dominated_operations",),
    ("dominated_operations", "non_idle_machines"),
]


def cases(tier, seed):
    out = []
    for spec in F.K3():
        out.append(("queries", spec, "full" if tier == "thorough" else "std", tier == "thorough"))
    if tier == "quick":
        for spec in F.sliced(F.K4(), seed % 16, 16):
            out.append(("queries", spec, "edges-only", False))
        for spec in F.P_SMALL:
            out.append(("queries", spec, "cached-pairs", False))
        for spec in F.P_LARGE:
            out.append(("queries", spec, "basic", False))
    else:
        for i, spec in enumerate(F.K4()):
            out.append(("queries", spec, "std" if i % 4 == seed % 4 else "edges-only", False))
        for spec in F.M3_small():
            out.append(("queries", spec, "cached-pairs", False))
        for spec in F.P_ALL:
            out.append(("queries", spec, "cached-pairs" if F.n_ops(spec) <= 6 else "basic", False))
    return out


def heavy(case):
    return F.n_ops(case[1]) >= 5


def _diff(got, want):
    return [(n, g, w) for (n, g), (_, w) in zip(got, want) if g != w]


def run_case(case) -> Res:
    _, spec, mode, triples = case
    res = Res()
    ref = Ref(spec)
    cfgs = [()]
    if mode != "basic":
        for f in FILTER_CFGS:
            cfgs.append(f)
    for filters in cfgs:
        explore_queries(res, spec, filters, mode if not filters else "edges-only", triples and not filters)
        if mode == "edges-only":
            break  # 4-operation slice: no-filter configuration only
    return res


def explore_queries(res, spec, filters, mode, triples):
    check = "queries_match_reference"
    sig = {"filters": "+".join(filters) if filters else "none"}
    seen_states = set()

    def make_extra(inst, d):
        from job_shop_lib.dispatching import UnscheduledOperationsObserver

        return UnscheduledOperationsObserver(d)

    shared = [impl.mk_instance(spec)]

    def rebuild(hist):
        # fresh dispatcher on one shared instance (C14: nothing modifies it)
        inst = shared[0]
        d = impl.mk_dispatcher(inst, filters)
        impl.replay(d, hist)
        res.add("replayed_dispatches", len(hist))
        return inst, d

    def report(kind, hist, seq, diffs, **kw):
        n, g, w = diffs[0]
        res.violation(
            check, f"{kind}:{n}", sig=sig, spec=spec, filters=filters, history=hist,
            query_sequence=seq, observed=g, expected=w, **kw,
        )

    def visit(hist, live, parent_obs, ref):
        d, inst = live.d, live.inst
        st = ref.state(hist)
        if DOM in filters and not ref.positive:
            # the filter's choice among zero-duration operations is not pinned:
            # take the implementation's available list (must be a non-empty
            # sub-list of the ready operations) and recompute everything else
            av = [o.operation_id for o in d.available_operations()]
            ready = st.ready()
            if any(o not in ready for o in av) or len(set(av)) != len(av) or (ready and not av) or [o for o in ready if o in av] != av:
                res.violation(check, "available-not-an-ordered-sublist-of-ready", sig=sig, spec=spec, filters=filters, history=hist, available=av, ready=ready)
                return None
            st.avail_override = av
        want = spec_all(st, filters)
        # 0 deviations: everything forward, then in reverse, same state
        got = ask_all(d, inst)
        res.add("transitions", len(QUERIES))
        df = _diff(got, want)
        if df:
            report("forward-pass", hist, [q[0] for q in QUERIES], df)
        got_r = ask_all(d, inst, QUERIES[::-1])
        res.add("transitions", len(QUERIES))
        df = _diff(got_r, want[::-1])
        if df:
            report("reverse-pass", hist, [q[0] for q in QUERIES] + [q[0] for q in QUERIES[::-1]], df)
        ov = observer_views(live.extra, inst)
        if ov != spec_observer_views(st):
            res.violation(
                "unscheduled_observer_mirror", "observer-differs", sig=sig, spec=spec,
                filters=filters, history=hist, observed=ov, expected=spec_observer_views(st),
            )
        # an observer attached only now (mid-episode) must catch up with the
        # schedule, and keep mirroring along every continuation
        if hist and mode != "basic":
            from job_shop_lib.dispatching import UnscheduledOperationsObserver

            for c in [None] + ref.children(hist):
                inst2, d2 = rebuild(hist)
                late = UnscheduledOperationsObserver(d2)
                h2 = hist
                if c is not None:
                    impl.dispatch(d2, *c)
                    h2 = hist + (c,)
                res.add("evaluations")
                res.add("nontrivial")
                res.add("transitions", 2)
                ov2 = observer_views(late, inst2)
                want_ov = spec_observer_views(ref.state(h2))
                if ov2 != want_ov:
                    res.violation(
                        "unscheduled_observer_mirror", "late-attached-observer-differs", sig=sig,
                        spec=spec, filters=filters, history=hist, then=c, observed=ov2, expected=want_ov,
                    )
        key = st.canon()
        first = key not in seen_states
        seen_states.add(key)
        if mode == "basic":
            return None
        # 1-2 deviations: ordered pairs on freshly rebuilt states
        pinned = not (DOM in filters and not ref.positive)
        if not pinned:
            return None
        if first and mode in ("full", "std", "cached-pairs"):
            table = QUERIES if mode == "full" else ZERO_ARG
            wmap = dict(want)
            for (n1, c1, _), (n2, c2, _) in itertools.product(table, table):
                inst2, d2 = rebuild(hist)
                r1 = c1(d2, inst2)
                r2 = c2(d2, inst2)
                res.add("evaluations")
                res.add("transitions", 2)
                if hist:
                    res.add("nontrivial")
                if r1 != wmap[n1]:
                    report("first-of-pair", hist, [n1], [(n1, r1, wmap[n1])])
                if r2 != wmap[n2]:
                    report("second-of-pair", hist, [n1, n2], [(n2, r2, wmap[n2])])
            if triples:
                for qa, qb, qc in itertools.product(ZERO_ARG, repeat=3):
                    inst2, d2 = rebuild(hist)
                    qa[1](d2, inst2)
                    qb[1](d2, inst2)
                    r3 = qc[1](d2, inst2)
                    res.add("evaluations")
                    res.add("transitions", 3)
                    if hist:
                        res.add("nontrivial")
                    if r3 != wmap[qc[0]]:
                        report("third-of-triple", hist, [qa[0], qb[0], qc[0]], [(qc[0], r3, wmap[qc[0]])])
        # across transitions: q1 in s, then dispatch / reset, then everything in s'
        if mode in ("full", "std", "edges-only"):
            pre = [[q] for q in QUERIES] + [list(QUERIES)]
            if mode == "std":
                pre = [[q] for q in ZERO_ARG] + [list(QUERIES)]
            if mode == "edges-only":
                pre = [list(QUERIES), list(ZERO_ARG[::-1])]
            for c in ref.children(hist):
                st2 = ref.state(hist + (c,))
                want2 = spec_all(st2, filters)
                for qs in pre:
                    inst2, d2 = rebuild(hist)
                    for q in qs:
                        q[1](d2, inst2)
                    impl.dispatch(d2, *c)
                    got2 = ask_all(d2, inst2)
                    res.add("evaluations")
                    res.add("nontrivial")
                    res.add("transitions", len(qs) + 1 + len(QUERIES))
                    df = _diff(got2, want2)
                    if df:
                        report("stale-after-dispatch", hist, [q[0] for q in qs] + [f"dispatch{c}"], df, request=c)
            if hist:
                want0 = spec_all(ref.state(()), filters)
                for qs in pre:
                    inst2, d2 = rebuild(hist)
                    for q in qs:
                        q[1](d2, inst2)
                    d2.reset()
                    got0 = ask_all(d2, inst2)
                    res.add("evaluations")
                    res.add("nontrivial")
                    res.add("transitions", len(qs) + 1 + len(QUERIES))
                    df = _diff(got0, want0)
                    if df:
                        report("stale-after-reset", hist, [q[0] for q in qs] + ["reset"], df)
        # sparse queries across episodes: everything asked once in ANOTHER
        # state with the same number of dispatches, reset, this history
        # replayed without any query, then everything asked
        if hist and mode != "basic":
            for other_hist in {alt_left[: len(hist)], alt_right[: len(hist)]}:
                if other_hist == hist:
                    continue
                inst2, d2 = rebuild(other_hist)
                ask_all(d2, inst2)
                d2.reset()
                impl.replay(d2, hist)
                got3 = ask_all(d2, inst2)
                res.add("evaluations")
                res.add("nontrivial")
                res.add("transitions", 2 * len(hist) + 1 + 2 * len(QUERIES))
                df = _diff(got3, want)
                if df:
                    report("stale-after-reset-and-replay", hist, ["<all in state %r>" % (other_hist,), "reset", "replay"], df)
        if len(hist) == 2 and not filters and _disp.interleaves(hist):
            res.sample({"spec": spec, "state_history": hist, "queries": dict(want)})
        return None

    _all = list(Ref(spec).all_histories())
    alt_left, alt_right = _all[0], _all[-1]
    _disp.explore(res, spec, filters, visit, check, make_extra=make_extra, sig=sig)
