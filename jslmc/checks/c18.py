"""C18 - the environments honour the Gymnasium contract."""

from __future__ import annotations

import itertools

import numpy as np

from .. import families as F
from .. import impl
from ..core import Res
from ..explore import Chooser, explore_choices, owned_random
from ..refmodel import Ref
from . import _env

PROPERTY = "C18"
CHUNK = 2
RULE = (
    "Single env (E3): for every instance of the family x 4 graph builders x observer "
    "configurations x reward x updater options x filter, every action sequence (all legal "
    "(job, machine) decisions, -1 used for single-machine operations) is executed on a real "
    "SingleJobShopGraphEnv for two episodes; every observation must be in the declared space "
    "(gymnasium contains() and an own shape/dtype/bounds check), its mask and edge list must "
    "equal the current graph with padding (-1) only at the end, done <=> complete, truncated "
    "False, and every legal decision must be in the action space. Multi env (E2): the "
    "generator runs under an owned `random`, so EVERY instance it can emit is an episode "
    "(for several constructor-time draws); after every reset the inner environment must carry "
    "the constructor's configuration, observations must be in the padded space with padding "
    "True / -1 at the end (edges, removed-node mask and the rows of every feature matrix beyond the current instance), instances inside the generator's ranges. Case = one action sequence "
    "/ one generated episode; non-trivial = >= 2 steps involving >= 2 jobs."
)
ASSUMPTIONS = [
    "bounded to the listed instance families, generator ranges and configurations",
    "use_padding=True is the fixed-shape mode that is checked against the observation space; use_padding=False only for mask/edge list == graph",
]
BOUNDS = {
    "quick": "single env: K3+[seed%3::3] x rotating configuration (4 builders x 10 observer configs x 2 rewards x 4 updater options x 2 filters; each instance 4 configurations), small probes; multi env: jobs (2,3) x machines 2 / (2,3), durations (1,1), 6 configurations, constructor draws: default + every single deviation",
    "thorough": "single env: K3+ complete x 8 configurations, K4+[seed%16::16], probes; multi env: 12 configurations",
}

OBS_CFGS = (
    (("is_ready", ("jobs",)),),
    tuple((o, None) for o in _env.OBSERVER_TYPES),
    (("earliest_start_time", ("operations",)),),
    (("duration", ("machines",)), ("duration", ("jobs",))),
    (("is_scheduled", None),),
    (("position_in_job", None), ("is_ready", ("operations", "machines"))),
    (("remaining_operations", ("machines",)),),
    (("is_completed", ("jobs",)),),
    (("is_completed", None), ("remaining_operations", None)),
    (("earliest_start_time", None), ("duration", ("operations",))),
)
UPD = ({}, {"remove_completed_machine_nodes": False}, {"remove_completed_job_nodes": False}, {"remove_completed_machine_nodes": False, "remove_completed_job_nodes": False})
FILTERS = ((), ("dominated_operations",))
ALL_CFGS = [
    (b, o, r, u, f)
    for b in range(4)
    for o in range(len(OBS_CFGS))
    for r in ("makespan", "idle")
    for u in range(4)
    for f in range(2)
]


def cases(tier, seed):
    out = []
    n = len(ALL_CFGS)
    if tier == "quick":
        specs = list(F.sliced(F.K3_pos(), seed % 3, 3)) + F.P_SMALL
        per = 4
    else:
        specs = list(F.K3_pos()) + list(F.sliced(F.K4_pos(), seed % 16, 16)) + F.P_SMALL + [F.P_EXAMPLE]
        per = 8
    for i, s in enumerate(specs):
        # a deterministic walk through the configuration product: consecutive
        # instances take consecutive strides so that all axes vary together
        idx = tuple((i * per * 37 + k * 101 + seed) % n for k in range(per))
        out.append(("single", s, idx))
    for k in range(6 if tier == "quick" else 12):
        out.append(("multi", k))
    return out


def heavy(case):
    return case[0] == "multi" or F.n_ops(case[1]) >= 4


def run_case(case) -> Res:
    res = Res()
    if case[0] == "single":
        for ci in case[2]:
            run_single(res, case[1], ALL_CFGS[ci])
    else:
        run_multi(res, case[1])
    return res


# ---------------------------------------------------------------------------
def check_observation(res, check, sig, env, obs, space, common, graph=None, padded_nodes=None):
    """Own membership check + gymnasium's; mask / edges mirror the graph."""
    g = graph if graph is not None else env.job_shop_graph
    ok = True
    try:
        inside = space.contains(obs)
    except Exception as exc:  # noqa: BLE001
        inside = False
        res.violation(check, f"space.contains-raised:{type(exc).__name__}", sig=sig, **common)
    if not inside:
        why = []
        for k, sp in space.spaces.items():
            if k not in obs:
                why.append(f"{k} missing")
            elif not sp.contains(obs[k]):
                why.append(f"{k}: shape {np.asarray(obs[k]).shape} dtype {np.asarray(obs[k]).dtype} vs space {sp}")
        for k in obs:
            if k not in space.spaces:
                why.append(f"{k} not declared")
        res.violation(check, "observation-not-in-space", sig=sig, why=why[:4], **common)
        ok = False
    n_nodes = len(g.nodes)
    mask = np.asarray(obs["removed_nodes"])
    want_len = space["removed_nodes"].shape[0]
    if mask.shape != (want_len,):
        res.violation(check, "mask-shape", sig=sig, shape=mask.shape, **common)
        return False
    if [bool(x) for x in mask[:n_nodes]] != [bool(x) for x in g.removed_nodes]:
        res.violation(check, "mask-differs-from-graph", sig=sig, observed=mask.tolist(), graph=list(g.removed_nodes), **common)
        ok = False
    if not all(bool(x) for x in mask[n_nodes:]):
        res.violation(check, "mask-padding-not-true", sig=sig, observed=mask.tolist(), **common)
        ok = False
    ei = np.asarray(obs["edge_index"])
    if ei.ndim != 2 or ei.shape[0] != 2 or ei.shape != space["edge_index"].shape:
        res.violation(check, "edge-index-shape", sig=sig, shape=ei.shape, declared=space["edge_index"].shape, **common)
        return False
    edges = [tuple(e) for e in g.graph.edges()]
    k = len(edges)
    real = [tuple(int(x) for x in ei[:, c]) for c in range(min(k, ei.shape[1]))]
    if len(set(real)) != len(real) or set(real) != set(edges):
        res.violation(check, "edge-list-differs-from-graph", sig=sig, n_observed=len(real), n_graph=k, **common)
        ok = False
    if ei.shape[1] > k and not np.all(ei[:, k:] == -1):
        res.violation(check, "edge-padding-not-at-end-or-not-minus-one", sig=sig, **common)
        ok = False
    # feature matrices: rows beyond the current instance's entities are padding (-1)
    inst = g.instance
    sizes = {"operations": inst.num_operations, "machines": inst.num_machines, "jobs": inst.num_jobs}
    for key, n_ent in sizes.items():
        if key in obs:
            mat = np.asarray(obs[key])
            if mat.shape[0] > n_ent and not np.all(mat[n_ent:] == -1):
                res.violation(check, "feature-padding-not-minus-one", sig=sig, key=key, rows=mat[n_ent:].tolist(), **common)
                ok = False
    return ok


def legal_actions(ref, st):
    out = []
    for j in range(ref.J):
        if st.nxt[j] < ref.jlen[j]:
            ms = ref.jobs[j][st.nxt[j]][0]
            for m in ms:
                out.append((j, m))
            if len(ms) == 1:
                out.append((j, -1))
    return out


def run_single(res, spec, cfg):
    check = "single_env_contract"
    b_i, o_i, reward, u_i, f_i = cfg
    builder, observers, upd, filters = _env.BUILDERS[b_i], OBS_CFGS[o_i], UPD[u_i], FILTERS[f_i]
    ref = Ref(spec)
    sig = {"builder": builder}
    cfg_desc = dict(builder=builder, observers=observers, reward=reward, updater_kwargs=upd, filters=filters)
    histories = list(ref.all_histories())

    def build(pad=True):
        return _env.mk_env(spec, builder_name=builder, observers=observers, reward=reward, filters=filters, updater_kwargs=upd, use_padding=pad)

    env0 = build()
    space, aspace = env0.observation_space, env0.action_space
    # every legal decision in every reachable state must be in the action space
    seen_states = set()
    for h in histories:
        for k in range(len(h) + 1):
            st = ref.state(h[:k])
            if st.canon() in seen_states:
                continue
            seen_states.add(st.canon())
            for a in legal_actions(ref, st):
                res.add("evaluations")
                if not aspace.contains(np.array(a, dtype=aspace.dtype)):
                    res.violation(check, "legal-action-not-in-action-space", sig=sig, spec=spec, action=a, action_space=str(aspace), state_history=h[:k], **cfg_desc)
    res.add("states", len(seen_states))
    # all action sequences, two episodes per environment object
    for n_h, h in enumerate(histories):
        env = build()
        for episode in (1, 2):
            common = dict(spec=spec, episode=episode, **cfg_desc)
            obs, info = env.reset()
            res.add("transitions")
            check_observation(res, check, sig, env, obs, space, dict(history=(), **common))
            hh = h if episode == 1 else histories[-1 - n_h]
            for k, (j, m) in enumerate(hh, start=1):
                st_prev = ref.state(hh[: k - 1])
                single = len(ref.jobs[j][st_prev.nxt[j]][0]) == 1
                action = (j, -1) if (single and (k + episode) % 2 == 0) else (j, m)
                out = env.step(action)
                res.add("transitions")
                obs, r, done, trunc, info = out
                cm = dict(history=hh[:k], **common)
                check_observation(res, check, sig, env, obs, space, cm)
                if bool(done) != (k == ref.N) or bool(done) != env.dispatcher.schedule.is_complete():
                    res.violation(check, "done-flag-wrong", sig=sig, done=done, **cm)
                if trunc is not False:
                    res.violation(check, "truncated-signalled", sig=sig, truncated=trunc, **cm)
            res.add("evaluations")
            res.add("traces")
            if len(hh) >= 2 and len({j for j, _ in hh}) >= 2:
                res.add("nontrivial")
    # use_padding=False: mask and edge list still mirror the graph
    env = build(pad=False)
    obs, _ = env.reset()
    for k, a in enumerate(histories[0], start=1):
        obs = env.step(a)[0]
        g = env.job_shop_graph
        ei = np.asarray(obs["edge_index"])
        real = set() if ei.size == 0 else {tuple(int(x) for x in ei[:, c]) for c in range(ei.shape[1])}
        if real != {tuple(e) for e in g.graph.edges()} or [bool(x) for x in obs["removed_nodes"]] != [bool(x) for x in g.removed_nodes]:
            res.violation(check, "unpadded-observation-differs-from-graph", sig=sig, spec=spec, history=histories[0][:k], **cfg_desc)
    if ref.N >= 3 and len(res.samples) < 1:
        res.sample({"spec": spec, "configuration": cfg_desc, "action_sequences": len(histories), "episodes_each": 2})


# ---------------------------------------------------------------------------
MULTI = [
    # (generator kwargs, builder, updater kwargs/subclass, reward, filter names)
    (dict(num_jobs=(2, 3), num_machines=2, duration_range=(1, 1)), "agent_task", "default", "makespan", ("dominated_operations",)),
    (dict(num_jobs=(2, 3), num_machines=(2, 3), duration_range=(1, 1)), "agent_task", "no-machine-removal", "idle", ("dominated_operations",)),
    (dict(num_jobs=2, num_machines=(2, 3), duration_range=(1, 1)), "complete_agent_task", "subclass", "makespan", ()),
    (dict(num_jobs=(2, 3), num_machines=2, duration_range=(1, 1)), "disjunctive", "no-job-removal", "makespan", ("dominated_operations",)),
    (dict(num_jobs=(2, 3), num_machines=2, duration_range=(1, 1), allow_recirculation=True), "disjunctive", "default", "makespan", ("dominated_operations",)),
    (dict(num_jobs=2, num_machines=2, duration_range=(1, 1), machines_per_operation=(1, 2)), "agent_task", "default", "idle", ("dominated_operations",)),
    (dict(num_jobs=(2, 3), num_machines=2, duration_range=(1, 1), allow_recirculation=True), "agent_task_with_jobs", "subclass", "idle", ()),
    (dict(num_jobs=2, num_machines=2, duration_range=(1, 2)), "agent_task_with_jobs", "no-machine-removal", "makespan", ("dominated_operations",)),
    (dict(num_jobs=(1, 2), num_machines=(1, 2), duration_range=(1, 1)), "complete_agent_task", "default", "makespan", ("dominated_operations",)),
    (dict(num_jobs=2, num_machines=2, duration_range=(1, 1), machines_per_operation=2), "disjunctive", "default", "makespan", ("dominated_operations",)),
    (dict(num_jobs=(2, 3), num_machines=(2, 3), duration_range=(1, 1), allow_less_jobs_than_machines=False), "agent_task", "default", "makespan", ("dominated_operations",)),
    (dict(num_jobs=3, num_machines=2, duration_range=(1, 1), allow_recirculation=True), "complete_agent_task", "no-job-removal", "idle", ("non_immediate_machines",)),
]


def run_multi(res, k):
    check = "multi_env_contract"
    from job_shop_lib.dispatching import DispatcherObserverConfig
    from job_shop_lib.generation import GeneralInstanceGenerator
    from job_shop_lib.graphs.graph_updaters import ResidualGraphUpdater
    from job_shop_lib.reinforcement_learning import MultiJobShopGraphEnv

    class MyUpdater(ResidualGraphUpdater):
        pass

    gen_kwargs, builder, upd_name, reward, filters = MULTI[k]
    if upd_name == "default":
        upd_cfg = DispatcherObserverConfig(ResidualGraphUpdater)
    elif upd_name == "subclass":
        upd_cfg = DispatcherObserverConfig(MyUpdater, kwargs={"remove_completed_job_nodes": False})
    elif upd_name == "no-machine-removal":
        upd_cfg = DispatcherObserverConfig(ResidualGraphUpdater, kwargs={"remove_completed_machine_nodes": False})
    else:
        upd_cfg = DispatcherObserverConfig(ResidualGraphUpdater, kwargs={"remove_completed_job_nodes": False})
    observers = [_env.observer_config("is_ready", ("jobs",)), _env.observer_config("duration", None), _env.observer_config("is_completed", ("operations",))]
    flt = impl.mk_filter(filters)
    flexible = gen_kwargs.get("machines_per_operation", 1) != 1
    sig = {"builder": builder, "recirculation": bool(gen_kwargs.get("allow_recirculation", False)), "flexible_generator": flexible}
    cfg_desc = dict(generator=gen_kwargs, builder=builder, updater=upd_name, reward=reward, filters=filters)
    j_rng = gen_kwargs["num_jobs"] if isinstance(gen_kwargs["num_jobs"], tuple) else (gen_kwargs["num_jobs"],) * 2
    m_rng = gen_kwargs["num_machines"] if isinstance(gen_kwargs["num_machines"], tuple) else (gen_kwargs["num_machines"],) * 2

    def make_env(ch):
        with owned_random(ch):
            gen = GeneralInstanceGenerator(**gen_kwargs)
            env = MultiJobShopGraphEnv(
                instance_generator=gen,
                feature_observer_configs=observers,
                graph_initializer=_env.builder(builder),
                graph_updater_config=upd_cfg,
                ready_operations_filter=flt,
                reward_function_config=DispatcherObserverConfig(_env.reward_cls(reward)),
            )
        return env

    # constructor-time draws: the default answers and every single deviation
    probe = Chooser(())
    make_env(probe)
    ctor_prefixes = [()]
    for i, (n, _, _) in enumerate(probe.trace):
        for alt in range(1, n):
            ctor_prefixes.append(tuple([0] * i + [alt]))
    n_ctor = len(probe.trace)
    episodes = set()
    for cp in ctor_prefixes:
        env = make_env(Chooser(cp))
        space = env.observation_space

        def run(ch):
            """One reset (instance drawn from ch) + one complete episode."""
            problems = []
            common = dict(constructor_answers=cp, **cfg_desc)
            try:
                with owned_random(ch):
                    obs, info = env.reset()
            except Exception as exc:  # noqa: BLE001
                # was the declared (padded) space simply too small for this
                # instance of the generator's own ranges?
                kind = f"reset-raised:{type(exc).__name__}"
                try:
                    inner = env.single_job_shop_graph_env
                    g = inner.job_shop_graph
                    too_small = []
                    if len(g.nodes) > space["removed_nodes"].shape[0]:
                        too_small.append("nodes")
                    if g.num_edges > space["edge_index"].shape[1]:
                        too_small.append("edges")
                    for ft, mat in inner.composite_observer.features.items():
                        if mat.shape[0] > space[ft.value].shape[0]:
                            too_small.append(ft.value)
                    if too_small and type(exc).__name__ == "ValidationError":
                        kind = "declared-space-too-small-for-generated-instance"
                except Exception:  # noqa: BLE001
                    pass
                return ("reset-raised", kind, repr(exc)[:200], None)
            inner = env.single_job_shop_graph_env
            spec = impl.spec_of_instance(inner.instance)
            # configuration preserved
            gu = inner.graph_updater
            if type(gu) is not upd_cfg.class_type:
                problems.append(("episode-config-differs:graph_updater-class", type(gu).__name__))
            for kk, vv in upd_cfg.kwargs.items():
                if getattr(gu, kk, None) != vv:
                    problems.append((f"episode-config-differs:graph_updater-{kk}", getattr(gu, kk, None)))
            if type(inner.reward_function) is not _env.reward_cls(reward):
                problems.append(("episode-config-differs:reward_function", type(inner.reward_function).__name__))
            if inner.dispatcher.ready_operations_filter is not flt:
                problems.append(("episode-config-differs:ready_operations_filter", repr(inner.dispatcher.ready_operations_filter)))
            if inner.use_padding is not True:
                problems.append(("episode-config-differs:use_padding", inner.use_padding))
            kinds = [type(o).__name__ for o in inner.composite_observer.feature_observers]
            if kinds != ["IsReadyObserver", "DurationObserver", "IsCompletedObserver"]:
                problems.append(("episode-config-differs:feature_observers", kinds))
            # instance inside the generator's ranges
            J, L = len(spec), {len(job) for job in spec}
            if not j_rng[0] <= J <= j_rng[1] or len(L) != 1 or not m_rng[0] <= next(iter(L)) <= m_rng[1]:
                problems.append(("instance-outside-generator-ranges", spec))
            return ("ok", spec, problems, (obs, inner))

        for choices, out in explore_choices(run, max_leaves=3000):
            if choices == "CAP":
                res.add("caps_hit")
                break
            res.add("evaluations")
            res.add("traces")
            res.add("transitions")
            if out[0] == "reset-raised":
                res.violation(check, out[1], sig=sig, error=out[2], reset_answers=choices, constructor_answers=cp, **cfg_desc)
                continue
            _, spec, problems, (obs, inner) = out
            episodes.add(spec)
            if len(spec) >= 2 and len(spec[0]) >= 2:
                res.add("nontrivial")
            common = dict(instance=spec, constructor_answers=cp, reset_answers=choices, **cfg_desc)
            for pr in problems:
                res.violation(check, pr[0], sig=sig, observed=pr[1], **common)
            check_observation(res, check, sig, env, obs, space, dict(history=(), **common), graph=inner.job_shop_graph)
            # one complete episode: rotate over the legal actions
            ref = Ref(spec)
            hist = ()
            try:
                while True:
                    kids = ref.children(hist)
                    if not kids:
                        break
                    c = kids[(len(hist) + len(choices)) % len(kids)]
                    obs, r, done, trunc, info = env.step(c)
                    hist = hist + (c,)
                    res.add("transitions")
                    check_observation(res, check, sig, env, obs, space, dict(history=hist, **common), graph=env.job_shop_graph)
                    if bool(done) != (len(hist) == ref.N) or trunc is not False:
                        res.violation(check, "done-or-truncated-wrong", sig=sig, done=done, truncated=trunc, history=hist, **common)
                    if not env.action_space.contains(np.array(c, dtype=env.action_space.dtype)):
                        res.violation(check, "legal-action-not-in-action-space", sig=sig, action=c, action_space=str(env.action_space), **common)
            except Exception as exc:  # noqa: BLE001
                res.violation(check, f"step-raised:{type(exc).__name__}", sig=sig, error=repr(exc)[:200], history=hist, **common)
    res.add("states", len(episodes))
    res.sample({"configuration": cfg_desc, "constructor_draws": len(ctor_prefixes), "constructor_choice_points": n_ctor, "distinct_episode_instances": len(episodes)})
