"""C17 - residual graph hides only the decided and everything done."""

from __future__ import annotations

import itertools

from .. import families as F
from .. import impl
from ..core import Res
from ..refmodel import Ref
from . import _disp, _env

PROPERTY = "C17"
CHUNK = 8
RULE = (
    "Every dispatch history of every positive-duration instance is executed on a real "
    "Dispatcher with a ResidualGraphUpdater attached (4 graph builders x 4 option "
    "combinations x {no filter, dominated filter}); after every dispatch, in the first episode "
    "and in a second one after reset(): completed ops' nodes removed, no unscheduled op's node "
    "removed, machine/job node removed only if all its operations are scheduled, removals "
    "monotone, networkx node set == non-removed nodes and no edge touches a removed node, and "
    "(default options, every machine used) complete => everything removed. Case = one history "
    "prefix under one configuration; non-trivial = >= 2 steps involving >= 2 jobs."
)
ASSUMPTIONS = ["bounded to the listed positive-duration families", "completed/scheduled sets come from the reference model (current time under the installed filter)"]
BOUNDS = {
    "quick": "K3+ complete, each instance under 8 of 20 configurations in rotation (4 builders x 4 option pairs unfiltered + 4 builders x default options x dominated filter); K4+[seed%32::32] x 8 configurations (4 builders x default options x 2 filters); positive probes with <= 6 operations x 4 builders",
    "thorough": "K3+ x 32 configurations; K4+ complete, each instance under 6 of the 32 configurations in rotation; M3 small x 8; probes x 8",
}

OPTIONS = [(True, True), (False, True), (True, False), (False, False)]
FILTERS = [(), ("dominated_operations",)]


def cases(tier, seed):
    out = []
    full = [(b, o, f) for b in _env.BUILDERS for o in OPTIONS for f in FILTERS]
    dflt = [(b, (True, True), f) for b in _env.BUILDERS for f in FILTERS]
    q20 = [(b, o, ()) for b in _env.BUILDERS for o in OPTIONS] + [(b, (True, True), FILTERS[1]) for b in _env.BUILDERS]
    for i, s in enumerate(F.K3_pos()):
        if tier != "quick":
            out.append(("residual", s, tuple(full)))
        else:
            # 8 of the 20 configurations per instance, rotating
            out.append(("residual", s, tuple(q20[(i * 8 + k + seed) % 20] for k in range(8))))
    if tier == "quick":
        for s in F.sliced(F.K4_pos(), seed % 32, 32):
            out.append(("residual", s, tuple(dflt)))
        for s in F.P_ALL:
            if not F.has_zero(s) and F.n_ops(s) <= 6:
                out.append(("residual", s, tuple((b, (True, True), ()) for b in _env.BUILDERS)))
    else:
        for i, s in enumerate(F.K4_pos()):
            out.append(("residual", s, tuple(full[(i * 6 + k + seed) % len(full)] for k in range(6))))
        for s in F.M3_small():
            out.append(("residual", s, tuple(dflt)))
        for s in F.P_ALL:
            if not F.has_zero(s):
                out.append(("residual", s, tuple(dflt)))
    return out


def heavy(case):
    return F.n_ops(case[1]) >= 5


def run_case(case) -> Res:
    _, spec, cfgs = case
    res = Res()
    for b, opts, filters in cfgs:
        run_residual(res, spec, b, opts, filters)
    return res


def run_residual(res, spec, builder, opts, filters):
    check = "residual_graph_invariants"
    rm_m, rm_j = opts
    sig = {"builder": builder, "options": f"machines={rm_m},jobs={rm_j}", "filters": "+".join(filters) if filters else "none"}
    all_used = F.every_machine_used(spec)

    def make_extra(inst, d):
        from job_shop_lib.graphs.graph_updaters import ResidualGraphUpdater

        g = _env.builder(builder)(inst)
        return ResidualGraphUpdater(d, g, remove_completed_machine_nodes=rm_m, remove_completed_job_nodes=rm_j)

    def removed_set(g):
        return frozenset(i for i, r in enumerate(g.removed_nodes) if r)

    def invariants(hist, g, ref, episode, prev_removed):
        st = ref.state(hist)
        common = dict(spec=spec, builder=builder, options=opts, filters=filters, history=hist, episode=episode)
        removed = removed_set(g)
        completed = set(st.completed(filters))
        scheduled = set(st.where)
        removed_ops = {n for n in removed if n < ref.N}
        if not completed <= removed_ops:
            res.violation(check, "completed-operation-not-removed", sig=sig, missing=sorted(completed - removed_ops), **common)
        if not removed_ops <= scheduled:
            res.violation(check, "unscheduled-operation-removed", sig=sig, wrongly_removed=sorted(removed_ops - scheduled), **common)
        for n in g.nodes:
            if n.node_id not in removed:
                continue
            t = n.node_type.name
            if t == "MACHINE":
                ops_m = [o for o in range(ref.N) if n.machine_id in ref.ops[o][2]]
                if any(o not in scheduled for o in ops_m):
                    res.violation(check, "machine-node-removed-with-unscheduled-operations", sig=sig, machine=n.machine_id, **common)
            elif t == "JOB":
                if st.nxt[n.job_id] < ref.jlen[n.job_id]:
                    res.violation(check, "job-node-removed-with-unscheduled-operations", sig=sig, job=n.job_id, **common)
        if prev_removed is not None and not prev_removed <= removed:
            res.violation(check, "removal-not-permanent", sig=sig, reappeared=sorted(prev_removed - removed), **common)
        live_nodes = set(g.graph.nodes())
        want_live = {n.node_id for n in g.nodes} - removed
        if live_nodes != want_live:
            res.violation(check, "graph-node-set-differs-from-mask", sig=sig, in_graph_but_marked_removed=sorted(live_nodes - want_live), marked_live_but_absent=sorted(want_live - live_nodes), **common)
        bad_edges = [(u, v) for u, v in g.graph.edges() if u in removed or v in removed]
        if bad_edges:
            res.violation(check, "edge-touches-removed-node", sig=sig, edges=bad_edges[:6], **common)
        if len(hist) == ref.N and rm_m and rm_j and all_used and len(removed) != len(g.nodes):
            res.violation(check, "complete-but-nodes-left", sig=sig, left=sorted(want_live), **common)
        return removed

    def visit(hist, live, parent_obs, ref):
        upd = live.extra
        removed = invariants(hist, upd.job_shop_graph, ref, 1, parent_obs)
        # second episode after a reset issued here (complete histories and the
        # first step: that is where staleness of the completion flags shows)
        if hist and len(hist) in (1, ref.N):
            d2 = impl.mk_dispatcher(live.inst, filters)
            upd2 = make_extra(live.inst, d2)
            impl.replay(d2, hist)
            d2.reset()
            prev = invariants((), upd2.job_shop_graph, ref, 2, None)
            h2 = second
            if filters:
                # follow the filtered dispatcher: choose available operations only
                h2 = []
                while not d2.schedule.is_complete():
                    op = d2.available_operations()[-1]
                    h2.append((op.job_id, op.machines[-1]))
                    d2.dispatch(op, op.machines[-1])
                    res.add("transitions")
                    prev = invariants(tuple(h2), upd2.job_shop_graph, ref, 2, prev)
            else:
                for k, c in enumerate(h2, start=1):
                    impl.dispatch(d2, *c)
                    res.add("transitions")
                    prev = invariants(h2[:k], upd2.job_shop_graph, ref, 2, prev)
        if len(hist) == ref.N and ref.N >= 3 and _disp.interleaves(hist) and builder == "agent_task" and opts == (True, True) and not filters:
            res.sample({"spec": spec, "builder": builder, "history": hist, "removed_after_each_step": "checked", "final_removed": sorted(removed)})
        return removed

    second = list(Ref(spec).all_histories())[-1]
    _disp.explore(res, spec, filters, visit, check, make_extra=make_extra, sig=sig)
