"""C13 - dense rewards add up to the sparse objective."""

from __future__ import annotations

from .. import families as F
from .. import impl
from ..core import Res
from ..refmodel import Ref
from . import _disp, _env

PROPERTY = "C13"
CHUNK = 16
RULE = (
    "Every dispatch history (all machine choices of flexible operations included) of every "
    "instance is executed on a real Dispatcher with MakespanReward and IdleTimeReward "
    "subscribed from the start; after every step: one reward per dispatch, each <= 0, running "
    "sums equal -makespan and -idle time computed by the reference. The same histories are "
    "executed as action sequences of a real SingleJobShopGraphEnv (both reward configs): the "
    "reward returned by step() must be the one appended for that step and have the reference "
    "value. Case = one history prefix; non-trivial = >= 2 steps involving >= 2 jobs."
)
ASSUMPTIONS = ["bounded to the listed instance families", "idle time = sum over machines of first start + gaps between consecutive operations (up to the machine's last operation)"]
BOUNDS = {
    "quick": "observers: K3, K4[seed%16::16], probes (all histories); env.step: K3[::3] + small probes x {makespan, idle} x {disjunctive, agent_task}",
    "thorough": "observers: K3, K4, M3, probes; env.step: K3, K4[::8], small probes",
}


def cases(tier, seed):
    out = [("rewards", s) for s in F.K3()]
    if tier == "quick":
        out += [("rewards", s) for s in F.sliced(F.K4(), seed % 16, 16)]
        out += [("rewards", s) for s in F.P_ALL]
        out += [("rewards", s) for s in F.sliced(F.K5(), seed % 128, 128)]
        out += [("env", s) for s in F.sliced(F.K3(), seed % 3, 3)]
        out += [("env", s) for s in F.P_SMALL]
    else:
        out += [("rewards", s) for s in F.K4()]
        out += [("rewards", s) for s in F.M3()]
        out += [("rewards", s) for s in F.P_ALL]
        out += [("env", s) for s in F.K3()]
        out += [("env", s) for s in F.sliced(F.K4(), seed % 8, 8)]
        out += [("env", s) for s in F.P_SMALL]
    return out


def heavy(case):
    return F.n_ops(case[1]) >= 5


def expected_rewards(ref, hist):
    """(makespan rewards, idle rewards) step by step from the reference."""
    mk, idle = [], []
    prev_mk, prev_idle = 0, 0
    for k in range(1, len(hist) + 1):
        st = ref.state(hist[:k])
        mk.append(prev_mk - st.makespan())
        idle.append(prev_idle - st.idle_time())
        prev_mk, prev_idle = st.makespan(), st.idle_time()
    return mk, idle


def run_case(case) -> Res:
    res = Res()
    if case[0] == "rewards":
        run_rewards(res, case[1])
    else:
        run_env(res, case[1])
    return res


def run_rewards(res, spec):
    check = "reward_sums"

    def make_extra(inst, d):
        return (_env.reward_cls("makespan")(d), _env.reward_cls("idle")(d))

    def visit(hist, live, parent_obs, ref):
        mk_obs, idle_obs = live.extra
        st = ref.state(hist)
        for name, obs, target in (("makespan", mk_obs, st.makespan()), ("idle", idle_obs, st.idle_time())):
            r = list(obs.rewards)
            sig = {"reward": name}
            if len(r) != len(hist):
                res.violation(check, "not-one-reward-per-dispatch", sig=sig, spec=spec, history=hist, rewards=r)
                continue
            if any(x > 0 for x in r):
                res.violation(check, "positive-reward", sig=sig, spec=spec, history=hist, rewards=r)
            if sum(r) != -target:
                res.violation(check, "sum-differs-from-objective", sig=sig, spec=spec, history=hist, rewards=r, expected_sum=-target)
            if obs.last_reward != (r[-1] if r else 0):
                res.violation(check, "last_reward-wrong", sig=sig, spec=spec, history=hist, rewards=r, last_reward=obs.last_reward)
        want_mk, want_idle = expected_rewards(ref, hist)
        if list(mk_obs.rewards) != want_mk or list(idle_obs.rewards) != want_idle:
            res.violation(check, "per-step-rewards-differ", spec=spec, history=hist, observed=[list(mk_obs.rewards), list(idle_obs.rewards)], expected=[want_mk, want_idle])
        if len(hist) == ref.N and ref.N >= 3 and _disp.interleaves(hist):
            res.sample({"spec": spec, "history": hist, "makespan_rewards": want_mk, "idle_rewards": want_idle})
        # "for every history": also the histories of a later episode, after a
        # reset issued at this point
        if hist and len(hist) in (1, ref.N):
            d2 = impl.mk_dispatcher(live.inst, ())
            o_mk, o_idle = _env.reward_cls("makespan")(d2), _env.reward_cls("idle")(d2)
            impl.replay(d2, hist)
            d2.reset()
            h2 = rightmost
            w_mk, w_idle = expected_rewards(ref, h2)
            for k, c in enumerate(h2, start=1):
                impl.dispatch(d2, *c)
                res.add("transitions")
                if list(o_mk.rewards) != w_mk[:k] or list(o_idle.rewards) != w_idle[:k]:
                    res.violation(check, "rewards-differ-in-episode-after-reset", spec=spec, first_episode=hist, second_episode=h2[:k], observed=[list(o_mk.rewards), list(o_idle.rewards)], expected=[w_mk[:k], w_idle[:k]])
                    break
        return None

    rightmost = list(Ref(spec).all_histories())[-1]
    _disp.explore(res, spec, (), visit, check, make_extra=make_extra)


def run_env(res, spec):
    check = "env_step_reward"
    ref = Ref(spec)
    all_h = list(ref.all_histories())
    first_hist, last_hist = all_h[0], all_h[-1]
    for reward in ("makespan", "idle"):
        for b in ("disjunctive", "agent_task"):
            sig = {"reward": reward, "builder": b}
            for hist in all_h:
                env = _env.mk_env(spec, builder_name=b, reward=reward)
                env.reset()
                want_mk, want_idle = expected_rewards(ref, hist)
                want = want_mk if reward == "makespan" else want_idle
                for k, (j, m) in enumerate(hist):
                    single = len(spec[j][ref.state(hist[:k]).nxt[j]][0]) == 1
                    action = (j, -1) if (single and k % 2 == 0) else (j, m)
                    out = env.step(action)
                    res.add("transitions")
                    r = out[1]
                    appended = env.reward_function.rewards[-1] if env.reward_function.rewards else None
                    if r != appended or len(env.reward_function.rewards) != k + 1:
                        res.violation(check, "step-reward-is-not-the-appended-reward", sig=sig, spec=spec, history=hist, step=k, returned=r, rewards=list(env.reward_function.rewards))
                    if r != want[k]:
                        res.violation(check, "step-reward-differs-from-reference", sig=sig, spec=spec, history=hist, step=k, returned=r, expected=want[k])
                res.add("traces")
                res.add("evaluations")
                if _disp.interleaves(hist):
                    res.add("nontrivial")
                # second episode on the same environment
                if hist is first_hist or hist is last_hist:
                    env.reset()
                    for k, (j, m) in enumerate(last_hist):
                        r = env.step((j, m))[1]
                        res.add("transitions")
                        w = (expected_rewards(ref, last_hist)[0 if reward == "makespan" else 1])[k]
                        if r != w:
                            res.violation(check, "step-reward-differs-in-second-episode", sig=sig, spec=spec, first_episode=hist, second_episode=last_hist[: k + 1], returned=r, expected=w)
                            break
    res.add("states", len({ref.state(h[:k]).canon() for h in ref.all_histories() for k in range(len(h) + 1)}))
