"""C03 - CP-SAT solver returns feasible, truly optimal schedules."""

from __future__ import annotations

import itertools

from .. import families as F
from .. import impl
from ..core import Res
from ..refmodel import Ref, feasibility_errors, optimum, lower_bound

PROPERTY = "C03"
CHUNK = 4
RULE = (
    "(solve) every non-flexible instance of the family is solved with the real ORToolsSolver "
    "(solve and __call__; CP-SAT forced to one worker and a fixed seed): complete, feasible, "
    "metadata makespan == schedule makespan, status optimal => makespan == optimum found by "
    "exhaustive search over all dispatch histories (reference model), >= job/machine lower "
    "bound, <= every dispatching-rule result. (model) the public solver.model proto is "
    "interpreted by an own evaluator and, for tiny instances, ALL start vectors in the "
    "variable domains are enumerated: the satisfiable set must equal the brute-force feasible "
    "set, with end = start + duration and makespan = max end forced. (choices) for tiny "
    "instances EVERY optimal assignment is returned by a stub CpSolver to the real "
    "ORToolsSolver.solve: each must yield a valid schedule. (history) every ordered pair "
    "(thorough: triple) of solve calls on one solver object over a pool of instances: last "
    "result == fresh solver's. (errors) no time limit => no exception; tiny time limit => "
    "only NoSolutionFoundError. Case = one instance / assignment / call sequence; non-trivial = "
    ">= 2 jobs sharing a machine."
)
ASSUMPTIONS = [
    "CP-SAT itself is trusted on the tiny models (its verdict is cross-checked against exhaustive search, not replaced by it)",
    "no_overlap semantics: intervals a, b are compatible iff end_a <= start_b or end_b <= start_a (verified against CP-SAT for zero-size intervals)",
    "bounded to the listed families; benchmark instances (thorough) are a fixed list, not a space",
]
BOUNDS = {
    "quick": "solve: K3 NF complete (942) + K4 NF complete (9072) + 4 shapes x 2 machines x durations {0,2,3} (5184) + 2 shapes x 3 machines x durations {0,1,3} (13122) + shapes (3,1,1),(1,3,1) x 2 machines x durations {0,1,2} (15552) + NF probes; model enumeration + all optimal assignments: K3 NF complete (total duration <= 6); history: all ordered pairs of a 10-instance pool; errors: ft06 with 1e-9 s limit",
    "thorough": "solve: K3 NF, K4 NF, NF5[seed%8::8]; model/choices: K3 NF complete (total duration <= 6); history: all ordered triples of the pool; benchmarks ft06, la01-la05 against recorded optima",
}

POOL = [
    F.P_2X2,
    F.P_RECIRC,
    F.P_SINGLE_MACHINE,
    F.P_ZERO,
    F._nf([[(0, 1)]]),
    F._nf([[(1, 2)]]),
    F._nf([[(0, 2), (1, 1)], [(0, 1)]]),
    F._nf([[(0, 0), (0, 1)], [(0, 0), (0, 0)]]),
    F._nf([[(1, 1), (0, 2), (1, 1)]]),
    F._nf([[(0, 1)], [(0, 2)], [(1, 1)]]),
]


def cases(tier, seed):
    out = []
    for s in F.K3_nf():
        out.append(("solve", s))
    k4 = F.K4_nf()
    for s in k4:
        out.append(("solve", s))
    # longer durations next to zero durations, and three machines
    for s in F.family([(2, 1, 1), (1, 2, 1), (1, 1, 2), (2, 2)], F.MS_NF2, (0, 2, 3)):
        out.append(("solve", s))
    for s in F.family([(2, 1, 1), (1, 2, 1)], F.MS_NF3, (0, 1, 3)):
        out.append(("solve", s))
    # five operations: a 3-operation job between two single-operation jobs
    for s in F.family([(3, 1, 1), (1, 3, 1)], F.MS_NF2, (0, 1, 2)):
        out.append(("solve", s))
    for s in F.P_ALL:
        if not F.is_flexible(s):
            out.append(("solve", s))
    limit = 6
    for s in F.K3_nf():
        if sum(d for job in s for _, d in job) <= limit:
            out.append(("model", s))
    if tier == "quick":
        for i in range(len(POOL)):
            out.append(("history", (i,), 2))
    else:
        for i, j in itertools.product(range(len(POOL)), repeat=2):
            out.append(("history", (i, j), 3))
        for s in F.sliced(F.NF5(), seed % 8, 8):
            out.append(("solve", s))
        for name in ("ft06", "la01", "la02", "la03", "la04", "la05"):
            out.append(("benchmark", name))
    out.append(("errors", "ft06"))
    return out


def heavy(case):
    return case[0] in ("benchmark", "errors", "history") or (case[0] in ("solve", "model") and F.n_ops(case[1]) >= 5)


# ---------------------------------------------------------------------------
_PATCHED = False


def patch_cpsolver():
    """CP-SAT deterministic: one worker, fixed seed (harness side patch of the
    third-party module attribute the library looks up)."""
    global _PATCHED
    if _PATCHED:
        return
    from ortools.sat.python import cp_model

    Base = cp_model.CpSolver

    class DeterministicCpSolver(Base):
        def __init__(self, *a, **k):
            super().__init__(*a, **k)
            self.parameters.num_workers = 1
            self.parameters.random_seed = 12345

    cp_model._JslmcBaseCpSolver = Base
    cp_model.CpSolver = DeterministicCpSolver
    _PATCHED = True


def run_case(case) -> Res:
    res = Res()
    patch_cpsolver()
    kind = case[0]
    if kind == "solve":
        run_solve(res, case[1])
    elif kind == "model":
        run_model(res, case[1])
    elif kind == "history":
        run_history(res, case[1], case[2])
    elif kind == "benchmark":
        run_benchmark(res, case[1])
    else:
        run_errors(res, case[1])
    return res


def shares_machine(ref):
    return any(
        ref.ops[a][0] != ref.ops[b][0] and ref.ops[a][2] == ref.ops[b][2]
        for a in range(ref.N)
        for b in range(a + 1, ref.N)
    )


def check_result(res, check, ref, spec, S, sig=None, opt=None, **kw):
    """Common oracle for a schedule returned by the CP-SAT solver."""
    snap = impl.snap_schedule(S)
    errs = feasibility_errors(ref, snap)
    common = dict(spec=spec, **kw)
    if errs or not S.is_complete():
        res.violation(check, "infeasible-or-incomplete", sig=sig, errors=errs[:4], schedule=snap, **common)
        return None
    meta = S.metadata
    mk = S.makespan()
    if meta.get("makespan") != mk:
        res.violation(check, "metadata-makespan-differs-from-schedule", sig=sig, metadata=meta.get("makespan"), makespan=mk, **common)
    if meta.get("status") not in ("optimal", "feasible"):
        res.violation(check, "status-not-optimal-or-feasible", sig=sig, status=repr(meta.get("status")), **common)
    if meta.get("solved_by") != "ORToolsSolver":
        res.violation(check, "solved_by-wrong", sig=sig, solved_by=repr(meta.get("solved_by")), **common)
    et = meta.get("elapsed_time")
    if et is None or et < 0:
        res.violation(check, "elapsed_time-missing-or-negative", sig=sig, elapsed_time=repr(et), **common)
    if opt is not None:
        if mk < opt:
            res.violation(check, "makespan-below-true-optimum(infeasible?)", sig=sig, makespan=mk, optimum=opt, **common)
        if meta.get("status") == "optimal" and mk != opt:
            res.violation(check, "reported-optimal-but-not-optimal", sig=sig, makespan=mk, optimum=opt, **common)
    if mk < lower_bound(ref):
        res.violation(check, "makespan-below-lower-bound", sig=sig, makespan=mk, lower_bound=lower_bound(ref), **common)
    return mk


def run_solve(res, spec):
    check = "cp_sat_feasible_and_optimal"
    from job_shop_lib.constraint_programming import ORToolsSolver
    from job_shop_lib.dispatching.rules import DispatchingRuleSolver

    ref = Ref(spec)
    inst = impl.mk_instance(spec)
    opt = optimum(ref)
    res.add("evaluations")
    res.add("states")
    res.add("traces")
    if shares_machine(ref):
        res.add("nontrivial")
    for via in ("solve", "__call__"):
        solver = ORToolsSolver()
        res.add("transitions")
        try:
            S = solver.solve(inst) if via == "solve" else solver(inst)
        except Exception as exc:  # noqa: BLE001
            res.violation(check, f"raised-without-time-limit:{type(exc).__name__}", sig={"via": via}, spec=spec, error=repr(exc)[:300])
            continue
        mk = check_result(res, check, ref, spec, S, sig={"via": via}, opt=opt, via=via)
        if mk is None:
            continue
        if via == "solve" and S.metadata.get("status") == "optimal":
            for rule in ("shortest_processing_time", "most_work_remaining", "first_come_first_served"):
                for flt in (None, "dominated_operations"):
                    rmk = DispatchingRuleSolver(rule, "first", flt).solve(inst).makespan()
                    if mk > rmk:
                        res.violation(check, "optimal-makespan-above-dispatching-rule-result", spec=spec, makespan=mk, rule=rule, rule_makespan=rmk)
    if ref.N >= 3 and shares_machine(ref) and len(res.samples) < 1:
        res.sample({"spec": spec, "reference_optimum": opt})


# ---------------------------------------------------------------------------
# own evaluator of the CP-SAT model proto
# ---------------------------------------------------------------------------
def lin(expr, val):
    return expr.offset + sum(c * val[v] for v, c in zip(expr.vars, expr.coeffs))


def in_domain(x, dom):
    return any(dom[i] <= x <= dom[i + 1] for i in range(0, len(dom), 2))


def satisfied(proto, val):
    cons = proto.constraints
    for c in cons:
        kind = c.WhichOneof("constraint")
        if kind == "linear":
            x = sum(co * val[v] for v, co in zip(c.linear.vars, c.linear.coeffs))
            if not in_domain(x, list(c.linear.domain)):
                return False
        elif kind == "interval":
            iv = c.interval
            if lin(iv.start, val) + lin(iv.size, val) != lin(iv.end, val) or lin(iv.size, val) < 0:
                return False
        elif kind == "no_overlap":
            ivs = [cons[i].interval for i in c.no_overlap.intervals]
            for a, b in itertools.combinations(ivs, 2):
                if not (lin(a.end, val) <= lin(b.start, val) or lin(b.end, val) <= lin(a.start, val)):
                    return False
        elif kind == "lin_max":
            if lin(c.lin_max.target, val) != max(lin(e, val) for e in c.lin_max.exprs):
                return False
        else:
            raise NotImplementedError(kind)
    return True


def brute_feasible(ref, starts):
    end = [starts[o] + ref.ops[o][3] for o in range(ref.N)]
    for j in range(ref.J):
        for p in range(1, ref.jlen[j]):
            if end[ref.op_id[(j, p - 1)]] > starts[ref.op_id[(j, p)]]:
                return False
    for a, b in itertools.combinations(range(ref.N), 2):
        if ref.ops[a][2] == ref.ops[b][2]:
            if not (end[a] <= starts[b] or end[b] <= starts[a]):
                return False
    return True


def run_model(res, spec):
    check = "model_equals_problem"
    from ortools.sat.python import cp_model
    from job_shop_lib.constraint_programming import ORToolsSolver

    ref = Ref(spec)
    inst = impl.mk_instance(spec)
    solver = ORToolsSolver()
    try:
        solver.solve(inst)
    except Exception as exc:  # noqa: BLE001  (reported by the solve case)
        res.note(f"solve-raised:{type(exc).__name__}")
    proto = solver.model.Proto()
    names = [v.name for v in proto.variables]
    T = sum(d for job in spec for _, d in job)
    # identify variables through the public model: start_/end_ names are built
    # from repr(operation); fall back on structure (2 per op, in op order, + 1)
    nvars = len(proto.variables)
    if nvars != 2 * ref.N + 1:
        # a differently built (possibly equally valid) model: this sub-check
        # cannot interpret it and says so instead of guessing
        res.note("variable-layout-not-recognised")
        return
    # (the ORDER in which a model creates its variables is its own business: a
    # model built machine by machine is as good as one built job by job)
    import re

    start_idx, end_idx, mk_idx = [None] * ref.N, [None] * ref.N, None
    for i, nm in enumerate(names):
        m = re.search(r"j=(\d+), p=(\d+)", nm)
        if nm.startswith("makespan"):
            mk_idx = i
        elif m and (int(m.group(1)), int(m.group(2))) in ref.op_id:
            o = ref.op_id[(int(m.group(1)), int(m.group(2)))]
            if nm.startswith("start") and start_idx[o] is None:
                start_idx[o] = i
            elif nm.startswith("end") and end_idx[o] is None:
                end_idx[o] = i
    if mk_idx is None or None in start_idx or None in end_idx:
        res.note("variable-layout-not-recognised")
        return
    doms = [list(v.domain) for v in proto.variables]
    obj = proto.objective
    if list(obj.vars) != [mk_idx] or list(obj.coeffs) != [1]:
        res.violation(check, "objective-is-not-minimise-makespan", spec=spec, objective=str(obj)[:200])
    opt = optimum(ref)
    sat_set, feas_set = set(), set()
    optimal_assignments = []
    for starts in itertools.product(*[range(doms[i][0], doms[i][-1] + 1) for i in start_idx]):
        res.add("evaluations")
        val = [0] * nvars
        for o in range(ref.N):
            val[start_idx[o]] = starts[o]
            val[end_idx[o]] = starts[o] + ref.ops[o][3]
        mk = max(val[i] for i in end_idx)
        val[mk_idx] = mk
        in_dom = all(in_domain(val[i], doms[i]) for i in range(nvars))
        ok = in_dom and satisfied(proto, val)
        if ok:
            sat_set.add(starts)
            # the completion is forced: perturbing an end or the makespan breaks it
            for i in end_idx + [mk_idx]:
                for delta in (-1, 1):
                    v2 = list(val)
                    v2[i] += delta
                    if in_domain(v2[i], doms[i]) and satisfied(proto, v2):
                        res.violation(check, "end-or-makespan-not-forced", spec=spec, starts=starts, variable=names[i], value=v2[i])
            if mk == opt:
                optimal_assignments.append(list(val))
        if brute_feasible(ref, starts) and max(starts[o] + ref.ops[o][3] for o in range(ref.N)) <= T:
            feas_set.add(starts)
    res.add("states", len(sat_set))
    res.add("transitions", len(sat_set) + len(feas_set))
    if shares_machine(ref):
        res.add("nontrivial", len(sat_set))
    if sat_set != feas_set:
        res.violation(check, "satisfiable-set-differs-from-feasible-set", spec=spec, model_only=sorted(sat_set - feas_set)[:5], problem_only=sorted(feas_set - sat_set)[:5])
    if sat_set and min(max(s[o] + ref.ops[o][3] for o in range(ref.N)) for s in sat_set) != opt:
        res.violation(check, "model-optimum-differs-from-reference-optimum", spec=spec, optimum=opt)
    # every optimal assignment through the real reconstruction
    check2 = "every_optimal_assignment_reconstructs"
    Real = cp_model.CpSolver

    for val in optimal_assignments:
        res.add("evaluations")
        res.add("traces")

        class StubSolver:
            def __init__(self):
                self.parameters = type("P", (), {})()

            def Solve(self, model, *a, **k):  # noqa: N802
                return cp_model.OPTIMAL

            def Value(self, var):  # noqa: N802
                idx = var.Index() if hasattr(var, "Index") else var.index
                return val[idx]

            solve = Solve
            value = Value

        cp_model.CpSolver = StubSolver
        try:
            S = ORToolsSolver().solve(inst)
        except (AttributeError, TypeError, NotImplementedError) as exc:
            # the stub does not offer what this implementation asks of a solver
            res.note(f"stub-solver-insufficient:{type(exc).__name__}")
            break
        except Exception as exc:  # noqa: BLE001
            res.violation(check2, f"reconstruction-raised:{type(exc).__name__}", spec=spec, start_times=[val[i] for i in start_idx], error=repr(exc)[:300])
            continue
        finally:
            cp_model.CpSolver = Real
        check_result(res, check2, ref, spec, S, opt=opt, start_times=[val[i] for i in start_idx])
    if len(optimal_assignments) > 1 and len(res.samples) < 1:
        res.sample({"spec": spec, "start_vectors_enumerated": (T + 1) ** ref.N, "satisfying": len(sat_set), "optimal_assignments": len(optimal_assignments)})


# ---------------------------------------------------------------------------
def run_history(res, prefix, length):
    check = "result_independent_of_earlier_solves"
    from job_shop_lib.constraint_programming import ORToolsSolver

    insts = [impl.mk_instance(s) for s in POOL]
    fresh = {}
    for k, inst in enumerate(insts):
        a = ORToolsSolver().solve(inst)
        b = ORToolsSolver().solve(inst)
        fresh[k] = (impl.snap_schedule(a), a.metadata.get("makespan"), a.metadata.get("status"), impl.snap_schedule(a) == impl.snap_schedule(b))
    for rest in itertools.product(range(len(POOL)), repeat=length - len(prefix)):
        seq = tuple(prefix) + rest
        solver = ORToolsSolver()
        last = None
        try:
            for k in seq:
                last = solver.solve(insts[k])
                res.add("transitions")
        except Exception as exc:  # noqa: BLE001
            res.violation(check, f"raised:{type(exc).__name__}", sequence=[POOL[k] for k in seq], error=repr(exc)[:200])
            continue
        res.add("evaluations")
        res.add("traces")
        if len(set(seq)) > 1:
            res.add("nontrivial")
        k = seq[-1]
        ref = Ref(POOL[k])
        snap = impl.snap_schedule(last)
        errs = feasibility_errors(ref, snap)
        f_snap, f_mk, f_status, stable = fresh[k]
        if errs or not last.is_complete():
            res.violation(check, "infeasible-after-earlier-solves", sequence=[POOL[x] for x in seq], errors=errs[:4])
        elif last.metadata.get("makespan") != f_mk or last.metadata.get("status") != f_status or last.makespan() != f_mk:
            res.violation(check, "makespan-or-status-differs-from-fresh-solver", sequence=[POOL[x] for x in seq], observed=(last.makespan(), last.metadata.get("status")), fresh=(f_mk, f_status))
        elif stable and snap != f_snap:
            res.violation(check, "schedule-differs-from-fresh-solver", sequence=[POOL[x] for x in seq], observed=snap, fresh=f_snap)
    res.add("states", len(POOL))
    if prefix == (0,):
        res.sample({"pool": POOL[:4], "sequence_length": length})


def run_errors(res, name):
    check = "error_contract"
    from job_shop_lib.benchmarking import load_benchmark_instance
    from job_shop_lib.constraint_programming import ORToolsSolver

    inst = load_benchmark_instance(name)
    res.add("evaluations", 2)
    res.add("nontrivial", 2)
    res.add("states")
    res.add("transitions", 2)
    for limit in (1e-9, 1e-4):
        try:
            S = ORToolsSolver(max_time_in_seconds=limit).solve(inst)
            if not S.is_complete() or S.metadata.get("makespan") != S.makespan():
                res.violation(check, "incomplete-result-under-time-limit", instance=name, limit=limit)
            res.note("time-limit:returned-a-schedule")
        except Exception as exc:  # noqa: BLE001
            res.note(f"time-limit:{type(exc).__name__}")
            if type(exc).__name__ != "NoSolutionFoundError":
                res.violation(check, f"time-limit-raised:{type(exc).__name__}", instance=name, limit=limit, error=repr(exc)[:200])
    # a solve that failed (time limit) must not influence the next one on the
    # same solver object
    small = [impl.mk_instance(sp) for sp in POOL[:4]]
    for k, sinst in enumerate(small):
        solver = ORToolsSolver(max_time_in_seconds=1e-9)
        failed = False
        try:
            solver.solve(inst)
        except Exception as exc:  # noqa: BLE001
            failed = type(exc).__name__ == "NoSolutionFoundError"
        solver.max_time_in_seconds = None
        res.add("evaluations")
        res.add("nontrivial")
        res.add("transitions", 2)
        try:
            S = solver.solve(sinst)
            fresh = ORToolsSolver().solve(sinst)
            ref = Ref(POOL[k])
            errs = feasibility_errors(ref, impl.snap_schedule(S))
            if errs or not S.is_complete() or S.makespan() != fresh.makespan() or S.metadata.get("status") != fresh.metadata.get("status"):
                res.violation(check, "result-after-a-failed-solve-differs-from-fresh-solver", instance=POOL[k], earlier_solve_failed=failed, errors=errs[:3], makespan=S.makespan(), fresh_makespan=fresh.makespan())
        except Exception as exc:  # noqa: BLE001
            res.violation(check, f"solve-after-a-failed-solve-raised:{type(exc).__name__}", instance=POOL[k], earlier_solve_failed=failed, error=repr(exc)[:200])
    res.sample({"instance": name, "time_limits": [1e-9, 1e-4]})


def run_benchmark(res, name):
    check = "benchmark_bounds"
    from job_shop_lib.benchmarking import load_benchmark_instance
    from job_shop_lib.constraint_programming import ORToolsSolver
    from job_shop_lib.dispatching.rules import DispatchingRuleSolver

    inst = load_benchmark_instance(name)
    S = ORToolsSolver(max_time_in_seconds=120).solve(inst)
    spec = impl.spec_of_instance(inst)
    ref = Ref(spec)
    res.add("evaluations")
    res.add("nontrivial")
    res.add("states")
    res.add("transitions")
    mk = check_result(res, check, ref, name, S)
    md = inst.metadata
    if mk is not None:
        if S.metadata.get("status") == "optimal" and md.get("optimum") is not None and mk != md["optimum"]:
            res.violation(check, "optimal-differs-from-recorded-optimum", instance=name, makespan=mk, recorded=md["optimum"])
        if md.get("lower_bound") is not None and mk < md["lower_bound"]:
            res.violation(check, "below-recorded-lower-bound", instance=name, makespan=mk, recorded=md["lower_bound"])
        if S.metadata.get("status") == "optimal" and md.get("upper_bound") is not None and mk > md["upper_bound"]:
            res.violation(check, "optimal-above-recorded-upper-bound", instance=name, makespan=mk, recorded=md["upper_bound"])
        for rule in ("most_work_remaining", "shortest_processing_time"):
            rmk = DispatchingRuleSolver(rule).solve(inst).makespan()
            if S.metadata.get("status") == "optimal" and mk > rmk:
                res.violation(check, "optimal-above-dispatching-rule", instance=name, makespan=mk, rule=rule, rule_makespan=rmk)
    res.sample({"benchmark": name, "makespan": mk, "recorded": {k: md.get(k) for k in ("optimum", "lower_bound", "upper_bound")}})
