"""Helpers to build real Gymnasium environments / graphs from specs."""

from __future__ import annotations

from .. import impl

BUILDERS = ("disjunctive", "agent_task", "agent_task_with_jobs", "complete_agent_task")


def _pruned(build, which):
    """Graph builder whose result had one node removed (public remove_node)
    before being handed to an updater / environment."""

    def f(inst):
        graph = build(inst)
        node = [n for n in graph.nodes if n.node_type.name == which][-1]
        graph.remove_node(node.node_id)
        return graph

    return f


def builder(name):
    from job_shop_lib import graphs as g

    if name == "disjunctive_without_sink":
        return _pruned(g.build_disjunctive_graph, "SINK")
    if name == "agent_task_without_last_machine":
        return _pruned(g.build_agent_task_graph, "MACHINE")
    return {
        "disjunctive": g.build_disjunctive_graph,
        "agent_task": g.build_agent_task_graph,
        "agent_task_with_jobs": g.build_agent_task_graph_with_jobs,
        "complete_agent_task": g.build_complete_agent_task_graph,
    }[name]


def reward_cls(name):
    from job_shop_lib.reinforcement_learning import MakespanReward, IdleTimeReward

    return {"makespan": MakespanReward, "idle": IdleTimeReward}[name]


FEATURE_TYPES = ("operations", "machines", "jobs")
OBSERVER_TYPES = (
    "is_ready",
    "earliest_start_time",
    "duration",
    "is_scheduled",
    "position_in_job",
    "remaining_operations",
    "is_completed",
)
SUPPORTED = {
    "is_ready": ("operations", "machines", "jobs"),
    "earliest_start_time": ("operations", "machines", "jobs"),
    "duration": ("operations", "machines", "jobs"),
    "is_scheduled": ("operations", "machines", "jobs"),
    "position_in_job": ("operations",),
    "remaining_operations": ("machines", "jobs"),
    "is_completed": ("operations", "machines", "jobs"),
}


def observer_config(otype, ftypes=None):
    from job_shop_lib.dispatching import DispatcherObserverConfig
    from job_shop_lib.dispatching.feature_observers import FeatureObserverType, FeatureType

    kwargs = {}
    if ftypes is not None:
        kwargs["feature_types"] = [FeatureType(f) for f in ftypes]
    return DispatcherObserverConfig(FeatureObserverType(otype), kwargs=kwargs)


def mk_env(
    spec,
    builder_name="disjunctive",
    observers=(("is_ready", ("jobs",)),),
    reward="makespan",
    filters=(),
    updater_kwargs=None,
    use_padding=True,
    inst=None,
):
    from job_shop_lib.dispatching import DispatcherObserverConfig
    from job_shop_lib.graphs.graph_updaters import ResidualGraphUpdater
    from job_shop_lib.reinforcement_learning import SingleJobShopGraphEnv

    if inst is None:
        inst = impl.mk_instance(spec)
    graph = builder(builder_name)(inst)
    cfgs = [observer_config(o, f) for o, f in observers]
    env = SingleJobShopGraphEnv(
        job_shop_graph=graph,
        feature_observer_configs=cfgs,
        reward_function_config=DispatcherObserverConfig(reward_cls(reward)),
        graph_updater_config=DispatcherObserverConfig(ResidualGraphUpdater, kwargs=dict(updater_kwargs or {})),
        ready_operations_filter=impl.mk_filter(filters),
        use_padding=use_padding,
    )
    return env
