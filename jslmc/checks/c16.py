"""C16 - graph encodings are faithful to the instance and the schedule."""

from __future__ import annotations

import itertools

from .. import families as F
from .. import impl
from ..core import Res
from ..refmodel import Ref
from ..refgraph import nodes_spec, edges_spec, longest_path
from . import _env

PROPERTY = "C16"
CHUNK = 16
RULE = (
    "E4: for every instance of the families and each of the four graph builders the node list "
    "(type, payload, node_id == index, operation nodes first with node_id == operation_id, "
    "nothing removed) and the exact typed edge set are compared with the reference "
    "definition. E1: for every positive-duration instance and every complete dispatch history "
    "the solved disjunctive graph of the real schedule must be acyclic and its longest "
    "duration-weighted source->sink path (own DP) equal the makespan; for every delay vector "
    "in {0,1}^n added on top of the same machine orders (feasible, not semi-active, built with "
    "Schedule(instance, lists)) the path must not exceed the makespan. After a graph of another, larger instance has been built the first graph is inspected again (node ids, node attributes, live nodes). Case = (instance, "
    "builder) or (instance, history, delay vector); non-trivial = >= 2 jobs and >= 3 operations."
)
ASSUMPTIONS = [
    "bounded to the listed families",
    "a consecutive same-job pair that also shares a machine: forward edge conjunctive (precedence), reverse edge disjunctive (single DiGraph edge per direction)",
]
BOUNDS = {
    "quick": "static: K3, K4[seed%4::4], M3 small, probes x 4 builders; solved graph: K3+ and K4+[seed%8::8] all complete histories x all delay vectors, positive probes (histories only)",
    "thorough": "static: K3, K4, M3, NF5 slice, probes; solved: K3+, K4+, M3 small, probes",
}


def cases(tier, seed):
    out = []
    k4 = F.sliced(F.K4(), seed % 4, 4) if tier == "quick" else F.K4()
    for s in itertools.chain(F.K3(), k4, F.M3_small(), F.P_ALL):
        out.append(("static", s))
    k4p = F.sliced(F.K4_pos(), seed % 8, 8) if tier == "quick" else F.K4_pos()
    for s in itertools.chain(F.K3_pos(), k4p):
        out.append(("solved", s, True))
    if tier != "quick":
        for s in F.sliced(F.NF5(), seed % 8, 8):
            out.append(("static", s))
        for s in F.M3_small():
            out.append(("solved", s, True))
    for s in F.P_ALL:
        if not F.has_zero(s):
            out.append(("solved", s, False))
    return out


def heavy(case):
    return F.n_ops(case[1]) >= 5


def run_case(case) -> Res:
    res = Res()
    if case[0] == "static":
        run_static(res, case[1])
    else:
        run_solved(res, case[1], case[2])
    return res


def node_payload(n):
    t = n.node_type.name
    if t == "OPERATION":
        return (t, n.operation.operation_id)
    if t == "MACHINE":
        return (t, n.machine_id)
    if t == "JOB":
        return (t, n.job_id)
    return (t, None)


def run_static(res, spec):
    check = "graph_matches_definition"
    from job_shop_lib.graphs import NODE_ATTR

    ref = Ref(spec)
    inst = impl.mk_instance(spec)
    for b in _env.BUILDERS:
        sig = {"builder": b}
        res.add("evaluations")
        res.add("transitions")
        if ref.J >= 2 and ref.N >= 3:
            res.add("nontrivial")
        g = _env.builder(b)(inst)
        nodes = [node_payload(n) for n in g.nodes]
        want_nodes = nodes_spec(ref, b)
        common = dict(spec=spec, builder=b)
        if nodes != want_nodes:
            res.violation(check, "node-list-differs", sig=sig, observed=nodes, expected=want_nodes, **common)
        ids = [n.node_id for n in g.nodes]
        if ids != list(range(len(ids))):
            res.violation(check, "node-id-not-index", sig=sig, observed=ids, **common)
        for n in g.nodes:
            if n.node_type.name == "OPERATION":
                own = inst.jobs[n.operation.job_id][n.operation.position_in_job]
                if own is not n.operation or n.node_id != n.operation.operation_id:
                    res.violation(check, "operation-node-id-not-operation-id", sig=sig, node=n.node_id, **common)
        if any(g.removed_nodes) or len(g.removed_nodes) != len(g.nodes):
            res.violation(check, "removed-nodes-not-all-false", sig=sig, observed=list(g.removed_nodes), **common)
        if sorted(g.graph.nodes()) != list(range(len(want_nodes))):
            res.violation(check, "nx-node-set-differs", sig=sig, observed=sorted(g.graph.nodes()), **common)
        want_edges = edges_spec(ref, b)
        got_edges = {}
        for u, v, data in g.graph.edges(data=True):
            t = data.get("type")
            got_edges[(u, v)] = getattr(t, "name", None)
        missing = sorted(set(want_edges) - set(got_edges))
        extra = sorted(set(got_edges) - set(want_edges))
        if missing:
            res.violation(check, "edges-missing", sig=sig, missing=missing[:10], n_missing=len(missing), **common)
        if extra:
            res.violation(check, "edges-extra", sig=sig, extra=extra[:10], n_extra=len(extra), **common)
        wrong = sorted((e, t, sorted(map(str, want_edges[e]))) for e, t in got_edges.items() if e in want_edges and t not in want_edges[e])
        if wrong:
            res.violation(check, "edge-type-wrong", sig=sig, wrong=wrong[:10], **common)
        if g.num_edges != len(got_edges):
            res.violation(check, "num_edges-wrong", sig=sig, observed=g.num_edges, **common)
        # lookups
        for m in range(ref.M):
            if b != "disjunctive" and g.get_machine_node(m).machine_id != m:
                res.violation(check, "get_machine_node-wrong", sig=sig, machine=m, **common)
        n_job_nodes = sum(1 for t, _ in want_nodes if t == "JOB")
        if g.num_job_nodes != n_job_nodes:
            res.violation(check, "num_job_nodes-wrong", sig=sig, observed=g.num_job_nodes, **common)
        for j in range(n_job_nodes):
            nj = g.get_job_node(j)
            if nj.job_id != j or nj.node_type.name != "JOB" or g.nodes[nj.node_id] is not nj:
                res.violation(check, "get_job_node-wrong", sig=sig, job=j, **common)
        for o in range(ref.N):
            if g.get_operation_node(o).operation.operation_id != o:
                res.violation(check, "get_operation_node-wrong", sig=sig, op=o, **common)
        by_m = [[n.node_id for n in ml] for ml in g.nodes_by_machine]
        if by_m != [[o for o in range(ref.N) if m in ref.ops[o][2]] for m in range(ref.M)]:
            res.violation(check, "nodes_by_machine-wrong", sig=sig, observed=by_m, **common)
        by_j = [[n.node_id for n in jl] for jl in g.nodes_by_job]
        if by_j != [[ref.op_id[(j, p)] for p in range(ref.jlen[j])] for j in range(ref.J)]:
            res.violation(check, "nodes_by_job-wrong", sig=sig, observed=by_j, **common)
        # building a graph of ANOTHER (larger) instance must not disturb this one
        other = impl.mk_instance(spec + ((((0,), 1), ((ref.M,), 2)),))
        _env.builder(b)(other)
        try:
            ids_again = [n.node_id for n in g.nodes]
            attr_ids = [g.graph.nodes[i][NODE_ATTR].node_id for i in sorted(g.graph.nodes())]
            live = [n.node_id for n in g.non_removed_nodes()]
            if ids_again != list(range(len(want_nodes))) or attr_ids != sorted(g.graph.nodes()) or live != ids_again:
                res.violation(check, "graph-disturbed-by-building-another-graph", sig=sig, node_ids=ids_again, attr_ids=attr_ids, **common)
        except Exception as exc:  # noqa: BLE001
            res.violation(check, f"graph-disturbed-by-building-another-graph:{type(exc).__name__}", sig=sig, error=repr(exc)[:200], **common)
    res.add("states")
    if ref.N == 3 and ref.J == 2 and ref.flexible and len(res.samples) < 1:
        res.sample({"spec": spec, "builder": "agent_task", "edges": sorted(edges_spec(ref, "agent_task"))[:12]})


def run_solved(res, spec, with_delays):
    check = "solved_graph_longest_path"
    from job_shop_lib import Schedule, ScheduledOperation
    from job_shop_lib.graphs import build_solved_disjunctive_graph

    ref = Ref(spec)
    inst = impl.mk_instance(spec)
    weight = {o: ref.ops[o][3] for o in range(ref.N)}
    src, snk = ref.N, ref.N + 1
    seen = set()

    def check_schedule(S, kind, label, **kw):
        g = build_solved_disjunctive_graph(S)
        edges = list(g.graph.edges())
        lp = longest_path(ref.N + 2, edges, weight, src, snk)
        mk = S.makespan()
        res.add("evaluations")
        res.add("transitions")
        if ref.J >= 2 and ref.N >= 3:
            res.add("nontrivial")
        if lp is None:
            res.violation(check, "solved-graph-cyclic", sig={"schedule": kind}, spec=spec, edges=edges, **kw)
        elif kind == "dispatcher" and lp != mk:
            res.violation(check, "longest-path-differs-from-makespan", sig={"schedule": kind}, spec=spec, longest_path=lp, makespan=mk, **kw)
        elif lp > mk:
            res.violation(check, "longest-path-exceeds-makespan", sig={"schedule": kind}, spec=spec, longest_path=lp, makespan=mk, **kw)
        # machine-order edges exactly the consecutive pairs, typed disjunctive
        want = set()
        for ml in S.schedule:
            for a, b in zip(ml, ml[1:]):
                want.add((a.operation.operation_id, b.operation.operation_id))
        conj = set()
        for j in range(ref.J):
            for p in range(1, ref.jlen[j]):
                conj.add((ref.op_id[(j, p - 1)], ref.op_id[(j, p)]))
            conj.add((src, ref.op_id[(j, 0)]))
            conj.add((ref.op_id[(j, ref.jlen[j] - 1)], snk))
        if set(edges) != want | conj:
            res.violation(check, "solved-graph-edge-set-differs", sig={"schedule": kind}, spec=spec, missing=sorted((want | conj) - set(edges)), extra=sorted(set(edges) - (want | conj)), **kw)

    for hist in ref.all_histories():
        res.add("traces")
        st = ref.state(hist)
        key = st.canon()
        if key in seen:
            continue
        seen.add(key)
        d = impl.mk_dispatcher(inst)
        impl.replay(d, hist)
        check_schedule(d.schedule, "dispatcher", "h", history=hist)
        if not with_delays:
            continue
        # delayed (non semi-active) variants on the same machine orders
        order = st.order
        for delays in itertools.product((0, 1), repeat=ref.N):
            if not any(delays):
                continue
            start, end = {}, {}
            mach_prev = {}
            for o in order:
                j, p, _, dur = ref.ops[o]
                m = st.where[o][0]
                s = 0
                if p > 0:
                    s = max(s, end[ref.op_id[(j, p - 1)]])
                if m in mach_prev:
                    s = max(s, end[mach_prev[m]])
                s += delays[o]
                start[o], end[o] = s, s + dur
                mach_prev[m] = o
            lists = [[] for _ in range(ref.M)]
            for o in order:
                j, p, _, _ = ref.ops[o]
                m = st.where[o][0]
                lists[m].append(ScheduledOperation(inst.jobs[j][p], start[o], m))
            S = Schedule(inst, lists)
            check_schedule(S, "delayed", "d", history=hist, delays=delays)
    res.add("states", len(seen))
    if ref.N >= 3 and ref.J >= 2 and len(res.samples) < 1:
        res.sample({"spec": spec, "distinct_schedules": len(seen), "delay_vectors_each": 2 ** ref.N - 1 if with_delays else 0})
