"""Shared driver: explore all histories of one instance on a real Dispatcher."""

from __future__ import annotations

from .. import impl
from ..explore import walk_histories, interleaves
from ..refmodel import Ref


class Live:
    """Fresh library objects for one branch of the exploration."""

    __slots__ = ("inst", "d", "extra", "fp")

    def __init__(self, inst, d, extra=None):
        self.inst = inst
        self.d = d
        self.extra = extra


def explore(
    res,
    spec,
    filters,
    visit,
    check,
    make_extra=None,
    children=None,
    pre_dispatch=None,
    on_dispatch=None,
    count_states=True,
    sig=None,
    rebuild="fresh",
):
    """Walk every history of ``spec`` with ``filters`` installed.

    visit(hist, live, parent_obs, ref) -> obs
    make_extra(inst, dispatcher) -> anything (observers ...) built at the
        initial state, before the prefix is replayed.
    pre_dispatch(live) is called before every dispatch (e.g. to populate the
        dispatcher's memo so that it could interfere if it were able to).
    on_dispatch(live, (j, m)) is called after every accepted dispatch (e.g. to
        drive a twin object in lock-step).
    rebuild: "fresh" = every non-leftmost branch gets newly constructed objects;
        "reset" = ONE dispatcher (and its observers) is reused for the whole
        tree, each branch being reached by reset() + replay of its prefix - the
        way a tree search or an RL loop uses a dispatcher.
    """
    ref = Ref(spec)
    # one instance object for all branches: nothing may modify it (C14), and a
    # component that does corrupts what later objects read - which is then seen
    shared_inst = impl.mk_instance(spec)
    base_sig = dict(sig or {})
    base_sig.setdefault("filters", "+".join(filters) if filters else "none")
    states = set()

    def do_dispatch(live, c, hist):
        if pre_dispatch is not None:
            pre_dispatch(live)
        try:
            impl.dispatch(live.d, c[0], c[1])
        except Exception as exc:  # an acceptable request was rejected
            res.violation(
                check,
                f"valid-request-rejected:{type(exc).__name__}",
                sig=base_sig,
                spec=spec,
                filters=filters,
                history=hist,
                request=c,
                error=repr(exc)[:300],
            )
            raise _Abort()
        if on_dispatch is not None:
            on_dispatch(live, c)

    reused = []

    def build(hist):
        inst = shared_inst
        if rebuild == "reset" and reused:
            live = reused[0]
            live.d.reset()
        else:
            d = impl.mk_dispatcher(inst, filters)
            live = Live(inst, d)
            if make_extra is not None:
                live.extra = make_extra(inst, d)
            reused.append(live)
        for k, c in enumerate(hist):
            do_dispatch(live, c, hist[:k])
        return live

    def apply(live, c):
        # hist is not known here; recovered lazily in violation via tracking
        do_dispatch(live, c, ("<live>", tuple(live.d.job_next_operation_index)))

    def _visit(hist, live, parent_obs):
        if count_states:
            states.add(ref.state(hist).canon())
        res.add("evaluations")
        if interleaves(hist):
            res.add("nontrivial")
        return visit(hist, live, parent_obs, ref)

    try:
        walk_histories(ref, build, apply, _visit, children=children, res=res)
    except _Abort:
        pass
    res.add("states", len(states))
    return ref


class _Abort(Exception):
    pass
