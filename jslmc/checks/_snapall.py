"""Attach every built-in observer; take complete content snapshots.

Used by C09 (rejected requests change nothing), C12 (reset == fresh) and
others.  Public attributes only.
"""

from __future__ import annotations

import numpy as np

from .. import impl
from . import _env
from ._queries import ask_all


def arr(a):
    """Content of an array: shape, dtype code, raw bytes (NaNs compare bitwise)."""
    a = np.ascontiguousarray(a)
    return (a.shape, a.dtype.char, a.tobytes())


def snap_features(obs):
    return tuple(sorted((ft.value, arr(m)) for ft, m in obs.features.items()))


def snap_graph(g):
    edges = []
    for u, v, data in g.graph.edges(data=True):
        t = data.get("type")
        edges.append((u, v, getattr(t, "name", None)))
    return (
        tuple(bool(x) for x in g.removed_nodes),
        tuple(sorted(g.graph.nodes())),
        tuple(sorted(edges, key=repr)),
        tuple((n.node_id, n.node_type.name) for n in g.nodes),
    )


OBSERVER_ORDER = (
    "is_ready",
    "earliest_start_time",
    "duration",
    "is_scheduled",
    "position_in_job",
    "remaining_operations",
    "is_completed",
    "composite",
    "makespan_reward",
    "idle_reward",
    "history",
    "unscheduled",
    "updater",
)


def make_observer(name, d, inst, builder="disjunctive", created=None, updater_kwargs=None):
    """Create one built-in observer by name (real constructors)."""
    from job_shop_lib.dispatching import HistoryObserver, UnscheduledOperationsObserver
    from job_shop_lib.dispatching.feature_observers import (
        CompositeFeatureObserver,
        FeatureObserverType,
        feature_observer_factory,
    )
    from job_shop_lib.graphs.graph_updaters import ResidualGraphUpdater

    if name in _env.OBSERVER_TYPES:
        return feature_observer_factory(FeatureObserverType(name), dispatcher=d)
    if name == "composite":
        return CompositeFeatureObserver(d)
    if name == "makespan_reward":
        return _env.reward_cls("makespan")(d)
    if name == "idle_reward":
        return _env.reward_cls("idle")(d)
    if name == "history":
        return d.create_or_get_observer(HistoryObserver)
    if name == "unscheduled":
        return d.create_or_get_observer(UnscheduledOperationsObserver)
    if name == "updater":
        return ResidualGraphUpdater(d, _env.builder(builder)(inst), **(updater_kwargs or {}))
    raise KeyError(name)


def attach_all(inst, d, builder="disjunctive", order=OBSERVER_ORDER, skip=(), notes=None, updater_kwargs=None):
    """Returns dict name -> observer. Observers whose construction raises are
    skipped (that failure belongs to C11's constructibility clause)."""
    out = {}
    for name in order:
        if name in skip:
            continue
        try:
            out[name] = make_observer(name, d, inst, builder, out, updater_kwargs)
        except Exception as exc:  # noqa: BLE001
            if notes is not None:
                notes(f"observer-construction-failed:{name}:{type(exc).__name__}")
    return out


def snap_observer(name, obs):
    if name in _env.OBSERVER_TYPES:
        s = [snap_features(obs)]
        # documented auxiliary attributes, when the observer has them
        for extra in ("earliest_start_times", "remaining_ops_per_machine", "remaining_ops_per_job"):
            val = getattr(obs, extra, None)
            if val is not None:
                s.append((extra, arr(val)))
        return tuple(s)
    if name == "composite":
        return (
            snap_features(obs),
            tuple(sorted((ft.value, tuple(cols)) for ft, cols in obs.column_names.items())),
        )
    if name == "makespan_reward":
        return (tuple(obs.rewards), getattr(obs, "current_makespan", None), obs.last_reward)
    if name == "idle_reward":
        return (tuple(obs.rewards), obs.last_reward)
    if name == "history":
        return tuple(impl.snap_sop(s) for s in obs.history)
    if name == "unscheduled":
        return (
            tuple(tuple(o.operation_id for o in dq) for dq in obs.unscheduled_operations_per_job),
            obs.num_unscheduled_operations,
        )
    if name == "updater":
        return snap_graph(obs.job_shop_graph)
    raise KeyError(name)


def snap_dispatcher(d, inst, with_queries=True):
    s = [
        impl.snap_schedule_full(d.schedule),
        impl.snap_tracking(d),
        d.schedule.num_scheduled_operations,
        d.schedule.makespan(),
        tuple(type(o).__name__ for o in d.subscribers),
    ]
    if with_queries:
        s.append(tuple((n, repr(v)) for n, v in ask_all(d, inst)))
    return tuple(s)


def snap_all(d, inst, observers, with_queries=True):
    """dict component -> snapshot (so that differences can be named)."""
    out = {"dispatcher": snap_dispatcher(d, inst, with_queries)}
    for name, obs in observers.items():
        out[name] = snap_observer(name, obs)
    # observers created implicitly (dependencies) are covered through the
    # subscriber list: snapshot every FeatureObserver subscriber positionally
    known = {id(o) for o in observers.values()}
    extra = []
    for o in d.subscribers:
        if id(o) in known:
            continue
        if hasattr(o, "features") and isinstance(getattr(o, "features"), dict):
            extra.append((type(o).__name__, snap_features(o)))
    out["implicit_feature_subscribers"] = tuple(extra)
    return out


def diff_keys(a, b):
    return sorted(k for k in set(a) | set(b) if a.get(k) != b.get(k))


def snap_env(env):
    obs = env.get_observation()
    out = {k: arr(v) for k, v in obs.items()}
    out["graph"] = snap_graph(env.job_shop_graph)
    out["dispatcher"] = snap_dispatcher(env.dispatcher, env.instance)
    out["rewards"] = (tuple(env.reward_function.rewards), env.reward_function.last_reward)
    out["composite"] = snap_observer("composite", env.composite_observer)
    extra = []
    for o in env.dispatcher.subscribers:
        if o is env.composite_observer:
            continue
        if hasattr(o, "features") and isinstance(getattr(o, "features"), dict):
            extra.append((type(o).__name__, snap_features(o)))
    out["feature_subscribers"] = tuple(extra)
    return out
