"""C09 - rejected requests change nothing (fault enumeration, deviation-bounded)."""

from __future__ import annotations

from .. import families as F
from .. import impl
from ..core import Res
from ..refmodel import Ref
from . import _disp, _env, _snapall

PROPERTY = "C09"
CHUNK = 4
RULE = (
    "At every position of every dispatch history (every node of the history tree, real "
    "Dispatcher with all built-in observers attached; real SingleJobShopGraphEnv) every "
    "invalid request of the alphabet is injected: dispatch of every operation that is not "
    "the next of its job (scheduled already / later in job) on each eligible machine and with "
    "machine None; dispatch of the next operation on every ineligible machine id in "
    "[-M-1, M+1]; machine None for multi-machine operations; env.step for finished / "
    "out-of-range jobs, ineligible machines and -1 for multi-machine operations. Oracle: an "
    "exception is raised; the complete snapshot (tracking, schedule, all queries, every "
    "observer, graph, env observation) equals that of a fault-free rebuild; after each valid "
    "continuation and after the leftmost completion it equals the fault-free run. quick: 1 "
    "fault per execution; thorough: all ordered pairs of faults. Case = (history prefix, "
    "fault); non-trivial = injected after >= 1 accepted dispatch."
)
ASSUMPTIONS = [
    "bounded to the listed families and to <= 2 consecutive faults",
    "any exception type counts as rejection (types seen are recorded under notes)",
    "observers whose constructor fails on an instance (C11 clause) are left out of that instance's snapshot",
]
BOUNDS = {
    "quick": "dispatcher + all observers: K3[seed%2::2] + small probes, 1 fault, builder disjunctive/agent-task alternating; env: K3[::6] + 2x2 probe",
    "thorough": "dispatcher: K3 complete, every single fault on freshly rebuilt objects; all ordered pairs of faults on K3 instances with <= 2 operations and K3[seed%8::8]; K4[seed%16::16] 1 fault; env: K3[::2], small probes",
}


def cases(tier, seed):
    out = []
    if tier == "quick":
        for i, s in enumerate(F.sliced(F.K3(), seed % 2, 2)):
            out.append(("dispatcher", s, 1, _env.BUILDERS[i % 2]))
        for s in F.P_SMALL:
            out.append(("dispatcher", s, 1, "complete_agent_task"))
        for s in F.sliced(F.K3(), seed % 6, 6):
            out.append(("env", s))
        out.append(("env", F.P_2X2))
    else:
        for i, s in enumerate(F.K3()):
            # all ordered pairs of faults on the <= 2-operation instances and a
            # slice of the 3-operation ones; single faults (cold rebuild each) on all
            pairs = F.n_ops(s) <= 2 or i % 8 == seed % 8
            out.append(("dispatcher", s, 3 if pairs else 2, _env.BUILDERS[i % 4]))
        for i, s in enumerate(F.sliced(F.K4(), seed % 16, 16)):
            out.append(("dispatcher", s, 1, _env.BUILDERS[i % 4]))
        for s in F.P_SMALL:
            out.append(("dispatcher", s, 1, "complete_agent_task"))
        for s in F.sliced(F.K3(), seed % 2, 2):
            out.append(("env", s))
        for s in F.P_SMALL:
            out.append(("env", s))
    return out


def heavy(case):
    return F.n_ops(case[1]) >= 5


def dispatcher_faults(ref, st):
    """[(label, job, pos, machine)] - every invalid dispatch request in state st."""
    faults = []
    M = ref.M
    for op, (j, p, ms, _) in enumerate(ref.ops):
        if p != st.nxt[j]:
            kind = "already-scheduled" if p < st.nxt[j] else "later-in-job"
            for m in ms:
                faults.append((kind, j, p, m))
            faults.append((kind + "/machine-None", j, p, None))
        else:
            for m in range(-M - 1, M + 2):
                if m not in ms:
                    faults.append(("ineligible-machine", j, p, m))
            if len(ms) > 1:
                faults.append(("machine-None-multi", j, p, None))
    return faults


def env_faults(ref, st):
    """[(label, action)] - every invalid env.step action in state st."""
    faults = []
    M = ref.M
    for j in range(-1, ref.J + 1):
        if j < 0 or j >= ref.J:
            if j >= ref.J:  # negative job ids index python lists silently: outside the property
                faults.append(("job-out-of-range", (j, -1)))
                faults.append(("job-out-of-range", (j, 0)))
            continue
        if st.nxt[j] >= ref.jlen[j]:
            faults.append(("finished-job", (j, -1)))
            for m in range(M):
                faults.append(("finished-job", (j, m)))
        else:
            ms = ref.jobs[j][st.nxt[j]][0]
            for m in range(-M - 1, M + 2):
                if m == -1:
                    if len(ms) > 1:
                        faults.append(("minus-one-for-multi-machine", (j, -1)))
                elif m not in ms:
                    faults.append(("ineligible-machine", (j, m)))
    return faults


def run_case(case) -> Res:
    res = Res()
    if case[0] == "dispatcher":
        run_dispatcher(res, case[1], case[2], case[3])
    else:
        run_env(res, case[1])
    return res


def run_dispatcher(res, spec, nfaults, builder):
    """nfaults: 1 = a cold rebuild for the first fault of each kind, the rest on
    shared verified objects (quick); 2 = a cold rebuild for every fault;
    3 = additionally every ordered pair of faults."""
    check = "rejected_dispatch_changes_nothing"
    ref = Ref(spec)
    sig0 = {"builder": builder}

    def build(hist):
        inst = impl.mk_instance(spec)
        d = impl.mk_dispatcher(inst, ())
        observers = _snapall.attach_all(inst, d, builder=builder, notes=res.note)
        impl.replay(d, hist)
        return inst, d, observers

    def inject(inst, d, fault):
        label, j, p, m = fault
        op = inst.jobs[j][p]
        try:
            if m is None:
                d.dispatch(op)
            else:
                d.dispatch(op, m)
        except Exception as exc:  # noqa: BLE001
            res.note(f"exception:{label}:{type(exc).__name__}")
            return type(exc).__name__
        return None

    leftmost_final = {}

    def leftmost_completion(hist):
        h = tuple(hist)
        while True:
            kids = ref.children(h)
            if not kids:
                return h
            h = h + (kids[0],)

    def completion_via(hist, c):
        return leftmost_completion(hist + (c,))

    def clean_path(path, frm):
        """fault-free snapshots after each step of path[frm:] (one build)."""
        inst, d, observers = build(path[:frm])
        snaps = [_snapall.snap_all(d, inst, observers)]
        for c in path[frm:]:
            impl.dispatch(d, *c)
            snaps.append(_snapall.snap_all(d, inst, observers))
        return snaps

    def visit(hist, live, parent_obs, ref_):
        st = ref.state(hist)
        kids = ref.children(hist)
        paths = [completion_via(hist, c) for c in kids] or [hist]
        clean_paths = [clean_path(p, len(hist)) for p in paths]
        clean = clean_paths[0][0]
        faults = dispatcher_faults(ref, st)
        seqs = [(f,) for f in faults]
        if nfaults >= 2:
            if nfaults >= 3:
                seqs += [(f, g) for f in faults for g in faults]
            cold = set(range(len(seqs)))
        else:
            # quick: a cold rebuild for the first fault of each kind; the other
            # faults are injected one after the other on shared objects whose
            # snapshot was just verified equal to the fault-free one
            cold, kinds = set(), set()
            for i, (f,) in enumerate(seqs):
                if f[0] not in kinds:
                    kinds.add(f[0])
                    cold.add(i)
        shared = None
        for idx, seq in enumerate(seqs):
            res.add("evaluations")
            if hist:
                res.add("nontrivial")
            sig = dict(sig0, fault="+".join(f[0] for f in seq))
            common = dict(spec=spec, history=hist, faults=seq, builder=builder)
            is_cold = idx in cold or shared is None
            if is_cold:
                inst, d, observers = build(hist)
            else:
                inst, d, observers = shared
            raised = [inject(inst, d, f) for f in seq]
            res.add("transitions", len(seq))
            if any(r is None for r in raised):
                res.violation(check, "invalid-request-accepted", sig=sig, raised=raised, **common)
            after = _snapall.snap_all(d, inst, observers)
            if after != clean:
                res.violation(check, "state-changed-by-rejected-request", sig=sig, memo="cold" if is_cold else "warm", components=_snapall.diff_keys(after, clean), **common)
                shared = None
                continue
            if not is_cold:
                continue
            # warm memo: the snapshot above asked every query; fault again
            raised = [inject(inst, d, f) for f in seq]
            after2 = _snapall.snap_all(d, inst, observers)
            if after2 != clean:
                res.violation(check, "state-changed-by-rejected-request", sig=sig, memo="warm", components=_snapall.diff_keys(after2, clean), **common)
                continue
            if shared is None and idx not in cold:
                shared = (inst, d, observers)
                continue
            if shared is None:
                shared = build(hist)
            # continue on the cold objects along one completion (rotating over
            # the children), comparing with the fault-free run
            which = idx % len(paths)
            path, snaps = paths[which], clean_paths[which]
            for k, c in enumerate(path[len(hist):], start=1):
                impl.dispatch(d, *c)
                res.add("transitions")
                if k == 1 or len(hist) + k == ref.N:
                    now = _snapall.snap_all(d, inst, observers)
                    if now != snaps[k]:
                        res.violation(check, "continuation-differs-from-fault-free-run", sig=sig, continuation=path[len(hist):len(hist) + k], components=_snapall.diff_keys(now, snaps[k]), **common)
                        break
        if shared is not None and kids:
            # the shared objects absorbed many faults: they must still continue
            # exactly like the fault-free run
            inst, d, observers = shared
            path, snaps = paths[0], clean_paths[0]
            for k, c in enumerate(path[len(hist):], start=1):
                impl.dispatch(d, *c)
                now = _snapall.snap_all(d, inst, observers)
                if now != snaps[k]:
                    res.violation(check, "continuation-differs-from-fault-free-run", sig=dict(sig0, fault="many"), spec=spec, history=hist, builder=builder, continuation=path[len(hist):len(hist) + k], components=_snapall.diff_keys(now, snaps[k]))
                    break
        if len(hist) == 1 and ref.N >= 3:
            res.sample({"spec": spec, "history": hist, "faults": faults[:6], "n_faults": len(faults)})
        return None

    # the walk itself only enumerates the nodes; objects are rebuilt per fault
    _disp.explore(res, spec, (), visit, check, sig=sig0)


def run_env(res, spec):
    check = "rejected_env_step_changes_nothing"
    ref = Ref(spec)
    cfgs = [
        ("disjunctive", "makespan", (("is_ready", None), ("duration", None), ("is_scheduled", None))),
        ("agent_task", "idle", (("is_ready", ("jobs",)), ("position_in_job", None), ("is_completed", None))),
    ]

    for b, reward, observers in cfgs:
        sig0 = {"builder": b}

        def build(hist):
            env = _env.mk_env(spec, builder_name=b, observers=observers, reward=reward)
            env.reset()
            for j, m in hist:
                env.step((j, m))
            return env

        seen = set()
        for full in ref.all_histories():
            for k in range(len(full) + 1):
                hist = full[:k]
                if hist in seen:
                    continue
                seen.add(hist)
                st = ref.state(hist)
                env = build(hist)
                clean = _snapall.snap_env(env)
                kids = ref.children(hist)
                kinds = set()
                for label, action in env_faults(ref, st):
                    res.add("evaluations")
                    if hist:
                        res.add("nontrivial")
                    sig = dict(sig0, fault=label)
                    common = dict(spec=spec, history=hist, action=action, builder=b)
                    if label not in kinds or env is None:
                        kinds.add(label)
                        env = build(hist)  # cold objects for the first fault of a kind
                    raised = None
                    try:
                        env.step(action)
                    except Exception as exc:  # noqa: BLE001
                        raised = type(exc).__name__
                        res.note(f"exception:env:{label}:{raised}")
                    res.add("transitions")
                    if raised is None:
                        res.violation(check, "invalid-action-accepted", sig=sig, **common)
                    after = _snapall.snap_env(env)
                    if after != clean:
                        res.violation(check, "env-changed-by-rejected-step", sig=sig, components=_snapall.diff_keys(after, clean), **common)
                        env = None
                        continue
                if kids and env is not None:
                    c = kids[0]
                    env.step(c)
                    e2 = build(hist + (c,))
                    if _snapall.snap_env(env) != _snapall.snap_env(e2):
                        res.violation(check, "continuation-differs-from-fault-free-run", sig=dict(sig0, fault="many"), spec=spec, history=hist, builder=b, next_action=c)
            res.add("traces")
        res.add("states", len(seen))
