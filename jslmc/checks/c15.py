"""C15 - equality means same content (all pairs / triples of bounded universes)."""

from __future__ import annotations

import itertools

from .. import families as F
from .. import impl
from ..core import Res
from ..refmodel import Ref

PROPERTY = "C15"
CHUNK = 1
RULE = (
    "Bounded universes of real library objects are built (each element twice, independently): "
    "operations (attached at every position of small instances + detached), scheduled "
    "operations and schedules (every prefix of every dispatch history of small instances, plus "
    "hand-shifted start times), instances (all instances with <= 2 operations and a slice of "
    "3-operation ones, plus renamed copies). Every ordered pair is compared with ==, != and "
    "hash, every ordered triple of a sub-universe for transitivity. Oracle: == is True for "
    "independently built equal content, False when machines / durations / job structure / "
    "start / machine differ, symmetric, reflexive, != is its negation, equal operations hash "
    "equally, comparison with foreign types is False. Case = one ordered pair or triple; "
    "non-trivial = pair of distinct objects."
)
ASSUMPTIONS = [
    "bounded universes as listed under bounds",
    "pairs whose difference the statement does not classify (same machines+duration at different positions; different name/metadata only; schedules of different instances with identical scheduled content) are checked for symmetry/hash consistency only",
]
BOUNDS = {
    "quick": "universes (each element built twice): operations 500, instances 600, scheduled operations 700, schedules 1000 - all ordered pairs; ordered triples of 90-element sub-universes",
    "thorough": "operations 1200 / instances 1200 / scheduled operations 2000 / schedules 3000 - all ordered pairs; triples of 180-element sub-universes",
}

SIZES = {
    "quick": dict(ops=500, inst=600, sops=700, scheds=1000, tri=60),
    "thorough": dict(ops=1200, inst=1200, sops=2000, scheds=3000, tri=120),
}
ROWS = 40


def cases(tier, seed):
    sz = SIZES[tier]
    out = [("lifecycle", tier, 0, 0)]
    for kind in ("ops", "inst", "sops", "scheds"):
        n = sz[kind]
        for lo in range(0, n, ROWS):
            out.append((kind, tier, lo, min(n, lo + ROWS)))
        out.append((kind + "-triples", tier, 0, sz["tri"]))
    return out


def heavy(case):
    return case[0].endswith("triples")


# ---------------------------------------------------------------------------
# universes: lists of (content, object_a, object_b) with a, b built separately
# ---------------------------------------------------------------------------
_U = {}


def small_specs():
    specs = [s for s in F.K3() if F.n_ops(s) <= 2]
    specs += list(itertools.islice((s for s in F.K3() if F.n_ops(s) == 3), 0, None, 7))
    return specs


def op_content(o):
    return (tuple(o.machines), o.duration, o.job_id, o.position_in_job, o.operation_id)


def universe(kind, tier):
    key = (kind, tier)
    if key in _U:
        return _U[key]
    from job_shop_lib import Operation, Schedule, ScheduledOperation

    n = SIZES[tier][kind]
    items = []
    if kind == "ops":
        for ms in ((0,), (1,), (0, 1), (1, 0)):
            for d in (0, 1, 2):
                mk = lambda: Operation(list(ms) if len(ms) > 1 else ms[0], d)
                items.append((("detached", ms, d), mk(), mk()))
        for spec in small_specs():
            a, b = impl.mk_instance(spec), impl.mk_instance(spec)
            for ja, jb in zip(a.jobs, b.jobs):
                for oa, ob in zip(ja, jb):
                    items.append((op_content(oa), oa, ob))
    elif kind == "inst":
        for spec in small_specs():
            items.append((("spec", spec), impl.mk_instance(spec), impl.mk_instance(spec)))
        for spec in small_specs()[:40]:
            items.append((("spec", spec), impl.mk_instance(spec, name="other", note=1), impl.mk_instance(spec)))
    elif kind in ("sops", "scheds"):
        specs = [s for s in small_specs() if F.n_ops(s) >= 2][:: (3 if kind == "scheds" else 2)]
        seen = set()
        for spec in specs:
            ref = Ref(spec)
            ia, ib = impl.mk_instance(spec), impl.mk_instance(spec)
            for hist in ref.all_histories(complete_only=False):
                st = ref.state(hist)
                if kind == "scheds":
                    ck = (spec, st.canon())
                    if ck in seen:
                        continue
                    seen.add(ck)
                    da, db = impl.mk_dispatcher(ia), impl.mk_dispatcher(ib)
                    impl.replay(da, hist)
                    impl.replay(db, hist)
                    items.append((ck, da.schedule, db.schedule))
                    # hand-shifted copy: last op on the first non-empty machine one unit later
                    for m, ml in enumerate(st.sched):
                        if ml:
                            def shifted(inst):
                                lists = [[] for _ in range(ref.M)]
                                for mm, mlist in enumerate(st.sched):
                                    for (o, s, e) in mlist:
                                        j, p, _, _ = ref.ops[o]
                                        extra = 1 if (mm == m and o == ml[-1][0]) else 0
                                        lists[mm].append(ScheduledOperation(inst.jobs[j][p], s + extra, mm))
                                return Schedule(inst, lists)
                            canon_shift = tuple(
                                tuple((o, s + (1 if (mm == m and o == ml[-1][0]) else 0)) for (o, s, _) in mlist)
                                for mm, mlist in enumerate(st.sched)
                            )
                            ck2 = (spec, canon_shift)
                            if ck2 not in seen:
                                seen.add(ck2)
                                items.append((ck2, shifted(ia), shifted(ib)))
                            break
                else:
                    for o, (m, s, e) in st.where.items():
                        j, p, ms, d = ref.ops[o]
                        for shift in (0, 1):
                            ck = (spec, o, s + shift, m)
                            if ck in seen:
                                continue
                            seen.add(ck)
                            items.append(
                                (
                                    ck,
                                    ScheduledOperation(ia.jobs[j][p], s + shift, m),
                                    ScheduledOperation(ib.jobs[j][p], s + shift, m),
                                )
                            )
    # deterministic thinning to the requested size, keeping variety
    if len(items) > n:
        step = len(items) / n
        items = [items[int(i * step)] for i in range(n)]
    _U[key] = items
    return items


# ---------------------------------------------------------------------------
# classification of a pair of contents: True (must be equal), False (must
# differ), None (not classified by the statement)
# ---------------------------------------------------------------------------


def spec_differs(sa, sb):
    return sa != sb


def classify(kind, ca, cb):
    if ca == cb:
        return True
    if kind == "ops":
        ma, da = (ca[1], ca[2]) if ca[0] == "detached" else (ca[0], ca[1])
        mb, db = (cb[1], cb[2]) if cb[0] == "detached" else (cb[0], cb[1])
        if tuple(ma) != tuple(mb) or da != db:
            return False
        return None
    if kind == "inst":
        return False if ca[1] != cb[1] else None
    if kind == "sops":
        (sa, oa, ta, ma), (sb, ob, tb, mb) = ca, cb
        ra, rb = Ref(sa), Ref(sb)
        if ra.ops[oa][2:] != rb.ops[ob][2:] or ta != tb or ma != mb:
            return False
        return None
    if kind == "scheds":
        (sa, ka), (sb, kb) = ca, cb
        if sa == sb:
            return False  # same instance, different scheduled content
        # different instances: content differs if the (machines, duration,
        # start) sequences per machine differ
        ra, rb = Ref(sa), Ref(sb)
        fa = tuple(tuple((ra.ops[o][2], ra.ops[o][3], s) for o, s in ml) for ml in ka)
        fb = tuple(tuple((rb.ops[o][2], rb.ops[o][3], s) for o, s in ml) for ml in kb)
        return False if fa != fb else None
    raise KeyError(kind)


def run_case(case) -> Res:
    kind, tier, lo, hi = case
    res = Res()
    if kind == "lifecycle":
        run_lifecycle(res, tier)
        return res
    if kind.endswith("-triples"):
        run_triples(res, kind[: -len("-triples")], tier, hi)
        return res
    U = universe(kind, tier)
    check = f"equality_{kind}"
    hashable = kind == "ops"
    for i in range(lo, min(hi, len(U))):
        ca, a, a2 = U[i]
        # reflexive / independently built copy / foreign types
        res.add("evaluations")
        res.add("transitions", 4)
        if not (a == a):
            res.violation(check, "not-reflexive", content=ca)
        if not (a == a2) or not (a2 == a):
            res.violation(check, "independently-built-copy-not-equal", content=ca)
        if a != a2:
            res.violation(check, "ne-true-for-equal-content", content=ca)
        for foreign in (None, 0, "x", (1, 2), object()):
            if a == foreign or not (a != foreign):
                res.violation(check, "equal-to-foreign-type", content=ca, foreign=repr(foreign))
        if hashable and hash(a) != hash(a2):
            res.violation(check, "equal-content-different-hash", content=ca)
        for j in range(len(U)):
            cb, b, _ = U[j]
            if i == j:
                continue
            res.add("evaluations")
            res.add("nontrivial")
            res.add("transitions", 2)
            want = classify(kind, ca, cb)
            eq = a == b
            if eq is not True and eq is not False:
                res.violation(check, "eq-not-a-bool", a=ca, b=cb, observed=repr(eq))
                continue
            if (a != b) == eq:
                res.violation(check, "ne-is-not-negation-of-eq", a=ca, b=cb)
            if eq != (b == a):
                res.violation(check, "not-symmetric", a=ca, b=cb)
            if want is True and not eq:
                res.violation(check, "same-content-not-equal", a=ca, b=cb)
            if want is False and eq:
                res.violation(check, "different-content-equal", a=ca, b=cb)
            if hashable and eq and hash(a) != hash(b):
                res.violation(check, "equal-but-different-hash", a=ca, b=cb)
    res.add("states", min(hi, len(U)) - lo)
    res.add("traces", min(hi, len(U)) - lo)
    if lo == 0:
        res.sample({"kind": kind, "universe_size": len(U), "first_elements": [repr(U[k][0])[:120] for k in range(0, len(U), max(1, len(U) // 4))][:4]})
    return res


def run_triples(res, kind, tier, n):
    U = universe(kind, tier)
    check = f"equality_{kind}"
    step = max(1, len(U) // n)
    sub = U[::step][:n]
    # include the independently built copies so that equal pairs exist
    objs = [(c, a) for c, a, _ in sub] + [(c, b) for c, _, b in sub[: n // 2]]
    eq = [[x == y for _, y in objs] for _, x in objs]
    k = len(objs)
    for i in range(k):
        for j in range(k):
            if not eq[i][j]:
                continue
            for l in range(k):
                res.add("evaluations")
                if eq[j][l] and not eq[i][l]:
                    res.violation(check, "not-transitive", a=objs[i][0], b=objs[j][0], c=objs[l][0])
    res.add("transitions", k * k)
    res.add("nontrivial", k * k - k)
    res.add("states", k)


def run_lifecycle(res, tier):
    """Equality / hash must follow the CURRENT content of an object: operations
    hashed or compared before they are placed in an instance, operations reused
    in a second instance, and operations changed in place after a comparison."""
    check = "equality_follows_current_content"
    from job_shop_lib import JobShopInstance, Operation

    specs = [s for s in small_specs() if F.n_ops(s) >= 2]
    if tier == "quick":
        specs = specs[::3]
    for spec in specs:
        res.add("evaluations", 3)
        res.add("nontrivial", 3)
        res.add("transitions", 6)
        res.add("states")
        res.add("traces")
        mk = lambda: [[Operation(ms[0] if len(ms) == 1 else list(ms), d) for ms, d in job] for job in spec]  # noqa: E731
        # 1. hashed and compared while still detached, then placed in an instance
        jobs_a = mk()
        for job in jobs_a:
            for op in job:
                hash(op)
                op == op  # noqa: B015
        a = JobShopInstance(jobs_a)
        b = impl.mk_instance(spec)
        for ja, jb in zip(a.jobs, b.jobs):
            for oa, ob in zip(ja, jb):
                if not (oa == ob) or not (ob == oa):
                    res.violation(check, "same-content-not-equal-after-early-hash", spec=spec, op=op_content(oa))
                elif hash(oa) != hash(ob):
                    res.violation(check, "equal-but-different-hash-after-early-hash", spec=spec, op=op_content(oa))
        if not (a == b):
            res.violation(check, "instances-not-equal-after-early-hash", spec=spec)
        # 2. the same operation objects reused in a second instance with the job
        #    order reversed (an implementation may refuse this: then skipped)
        try:
            c = JobShopInstance(list(reversed(jobs_a)))
        except Exception as exc:  # noqa: BLE001
            c = None
            res.note(f"reuse-of-operations-refused:{type(exc).__name__}")
        if c is not None:
            rev = tuple(reversed(spec))
            d = impl.mk_instance(rev)
            for jc, jd in zip(c.jobs, d.jobs):
                for oc, od in zip(jc, jd):
                    if not (oc == od):
                        res.violation(check, "same-content-not-equal-after-reuse", spec=rev, op=op_content(oc))
                    elif hash(oc) != hash(od):
                        res.violation(check, "equal-but-different-hash-after-reuse", spec=rev, op=op_content(oc))
        # 3. compared, then changed in place, then compared again (an
        #    implementation with immutable operations refuses: then skipped)
        e, f = impl.mk_instance(spec), impl.mk_instance(spec)
        if not (e == f):
            res.violation(check, "independently-built-copy-not-equal", spec=spec)
        try:
            e.jobs[-1][-1].duration += 1
        except Exception as exc:  # noqa: BLE001
            res.note(f"in-place-change-refused:{type(exc).__name__}")
            continue
        changed = tuple(tuple((ms, dd + (1 if (j == len(spec) - 1 and p == len(job) - 1) else 0)) for p, (ms, dd) in enumerate(job)) for j, job in enumerate(spec))
        g = impl.mk_instance(changed)
        if e == f or f == e:
            res.violation(check, "equal-after-duration-changed-in-place", spec=spec, changed=changed)
        if not (e == g) or not (g == e):
            res.violation(check, "not-equal-to-fresh-instance-with-the-new-content", spec=spec, changed=changed)
    res.sample({"lifecycle_cases": len(specs), "steps": ["hash/compare detached operations, then build the instance", "reuse the operation objects in a second instance", "compare, change a duration in place, compare again"]})
