"""Library-facing helpers: build real objects from specs, take content snapshots.

Only the public API of job_shop_lib is used.  Oracles never use the library's
``==`` (C15 is precisely that it is unreliable): everything is compared through
plain-content snapshots.
"""

from __future__ import annotations

import os
import sys

REPO = os.environ.get("JSLMC_REPO", "/repo")


def assert_repo():
    """Refuse to run unless job_shop_lib is the working tree under test."""
    import job_shop_lib

    path = os.path.realpath(job_shop_lib.__file__)
    root = os.path.realpath(REPO)
    if not path.startswith(root + os.sep):
        print(
            f"INTERNAL: job_shop_lib imported from {path}, expected under {root}",
            file=sys.stderr,
        )
        sys.exit(2)


def mk_instance(spec, name="I", **metadata):
    from job_shop_lib import JobShopInstance, Operation

    jobs = [
        [
            Operation(ms[0] if len(ms) == 1 else list(ms), d)
            for (ms, d) in job
        ]
        for job in spec
    ]
    return JobShopInstance(jobs, name=name, **metadata)


_FILTER_FUNCS = None


def filter_func(name):
    global _FILTER_FUNCS
    if _FILTER_FUNCS is None:
        from job_shop_lib.dispatching import (
            filter_dominated_operations,
            filter_non_immediate_machines,
            filter_non_idle_machines,
            filter_non_immediate_operations,
        )

        _FILTER_FUNCS = {
            "dominated_operations": filter_dominated_operations,
            "non_immediate_machines": filter_non_immediate_machines,
            "non_idle_machines": filter_non_idle_machines,
            "non_immediate_operations": filter_non_immediate_operations,
        }
    return _FILTER_FUNCS[name]


_COMPOSITES = {}


def mk_filter(names):
    """names: tuple of filter names -> callable or None (real library objects).

    A composite is created once per process and shared by every dispatcher
    that asks for the same composition - the way a solver object reuses its
    filter across solves - so state a composite keeps between calls is seen."""
    if not names:
        return None
    if len(names) == 1:
        return filter_func(names[0])
    if names not in _COMPOSITES:
        from job_shop_lib.dispatching import create_composite_operation_filter

        _COMPOSITES[names] = create_composite_operation_filter(list(names))
    return _COMPOSITES[names]


def mk_dispatcher(instance, filters=()):
    from job_shop_lib.dispatching import Dispatcher

    return Dispatcher(instance, ready_operations_filter=mk_filter(filters))


def dispatch(dispatcher, job, machine):
    """Issue the request (job, machine) through the public API."""
    inst = dispatcher.instance
    op = inst.jobs[job][dispatcher.job_next_operation_index[job]]
    dispatcher.dispatch(op, machine)
    return op


def replay(dispatcher, hist):
    for j, m in hist:
        dispatch(dispatcher, j, m)


# ---------------------------------------------------------------------------
# snapshots (plain content only)
# ---------------------------------------------------------------------------


def snap_sop(sop):
    return (sop.operation.operation_id, sop.start_time, sop.machine_id)


def snap_schedule(schedule):
    """Per machine list of (op_id, start, machine_id)."""
    return tuple(tuple(snap_sop(s) for s in ml) for ml in schedule.schedule)


def snap_schedule_full(schedule):
    return tuple(
        tuple(
            (
                s.operation.operation_id,
                s.start_time,
                s.machine_id,
                s.operation.job_id,
                s.operation.position_in_job,
                s.operation.duration,
                tuple(s.operation.machines),
                s.end_time,
            )
            for s in ml
        )
        for ml in schedule.schedule
    )


def ids(ops):
    return [o.operation_id for o in ops]


def snap_tracking(d):
    return (
        tuple(d.machine_next_available_time),
        tuple(d.job_next_available_time),
        tuple(d.job_next_operation_index),
    )


def snap_instance(inst):
    """Fingerprint of everything an instance exposes (for immutability)."""
    import numpy as np

    def arr(a):
        a = np.asarray(a)
        return (a.shape, str(a.dtype), tuple(np.nan_to_num(a, nan=-777.0).ravel().tolist()))

    jobs = tuple(
        tuple(
            (tuple(o.machines), o.duration, o.job_id, o.position_in_job, o.operation_id)
            for o in job
        )
        for job in inst.jobs
    )
    fp = [jobs, inst.name, repr(sorted(inst.metadata.items(), key=repr))]
    # cached views are included only if already materialised or cheap; all are cheap
    fp.append(inst.num_jobs)
    fp.append(inst.num_machines)
    fp.append(inst.num_operations)
    fp.append(inst.is_flexible)
    fp.append(repr(inst.durations_matrix))
    fp.append(repr(inst.machines_matrix))
    fp.append(
        tuple(tuple(o.operation_id for o in ml) for ml in inst.operations_by_machine)
    )
    fp.append(repr(inst.job_durations))
    fp.append(repr(inst.machine_loads))
    fp.append(inst.total_duration)
    fp.append(arr(inst.durations_matrix_array))
    fp.append(arr(inst.machines_matrix_array))
    fp.append(repr(inst.max_duration))
    fp.append(repr(inst.max_duration_per_job))
    fp.append(repr(inst.max_duration_per_machine))
    return tuple(fp)


def snap_instance_light(inst):
    """Cheaper fingerprint: jobs content + name + metadata."""
    return (
        tuple(
            tuple(
                (tuple(o.machines), o.duration, o.job_id, o.position_in_job, o.operation_id)
                for o in job
            )
            for job in inst.jobs
        ),
        inst.name,
        repr(sorted(inst.metadata.items(), key=repr)),
    )


def spec_of_instance(inst):
    return tuple(
        tuple((tuple(o.machines), o.duration) for o in job) for job in inst.jobs
    )
