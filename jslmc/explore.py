"""Exploration engines (DESIGN 2.1).

E1  walk_histories : stateless DFS over *all* dispatch histories of an
                     instance, executed on real library objects.
E2  explore_choices: exhaustive enumeration of every answer sequence of the
                     environment (random module, clock, ...) - the
                     deviation-ordered DFS of the guidance.
E3  event sequences are built by the checks on top of these two.
"""

from __future__ import annotations

import contextlib
import random as _random_module


class ReplayDivergence(Exception):
    """A recorded choice no longer fits - hard error, never a violation."""


# ---------------------------------------------------------------------------
# E1
# ---------------------------------------------------------------------------


def walk_histories(ref, build, apply, visit, children=None, res=None, max_nodes=None):
    """Visit every node of the history tree of ``ref``.

    build(hist)            -> live objects with ``hist`` already replayed on
                              *fresh* library objects
    apply(live, (j, m))    -> performs one transition on the live objects
    visit(hist, live, parent_obs) -> obs (handed to the children)
    children(hist)         -> list of (job, machine); default: every ready
                              operation on every eligible machine (reference)

    Live objects are never copied: the leftmost branch is followed with the
    live objects, every other branch is rebuilt by replaying its prefix.
    Returns number of nodes visited.
    """
    if children is None:
        children = ref.children
    count = [0]

    def rec(hist, live, parent_obs):
        if max_nodes is not None and count[0] >= max_nodes:
            if res is not None:
                res.add("caps_hit")
            return
        if live is None:
            live = build(hist)
            if res is not None:
                res.add("replayed_dispatches", len(hist))
        count[0] += 1
        obs = visit(hist, live, parent_obs)
        kids = children(hist)
        if not kids and res is not None:
            res.add("traces")
        first = True
        for c in kids:
            if res is not None:
                res.add("transitions")
            if first:
                first = False
                apply(live, c)
                rec(hist + (c,), live, obs)
            else:
                rec(hist + (c,), None, obs)

    rec((), None, None)
    return count[0]


def interleaves(hist):
    """Non-trivial by the stated rule: >= 2 steps that involve >= 2 jobs."""
    return len(hist) >= 2 and len({j for j, _ in hist}) >= 2


# ---------------------------------------------------------------------------
# E2
# ---------------------------------------------------------------------------


class Chooser:
    """Replays a prefix of choices, answers 0 afterwards, records menus."""

    def __init__(self, prefix=()):
        self.prefix = tuple(prefix)
        self.trace = []  # (n_options, chosen, label)

    def choose(self, n, label=""):
        if n <= 0:
            raise ValueError("empty menu")
        i = len(self.trace)
        if i < len(self.prefix):
            c = self.prefix[i]
            if c >= n:
                raise ReplayDivergence(
                    f"choice {i}: recorded {c} but only {n} options ({label})"
                )
        else:
            c = 0
        self.trace.append((n, c, label))
        return c

    @property
    def choices(self):
        return tuple(c for _, c, _ in self.trace)


def explore_choices(run, max_leaves=None, max_deviations=None):
    """Yield (choices, outcome) for every answer sequence of ``run(chooser)``.

    Depth-first; a leaf is one complete execution.  If ``max_leaves`` is hit
    the generator stops and sets ``explore_choices.capped = True`` on the
    returned stats dict (last yielded item is ``("CAP", stats)``).
    """
    stack = [()]
    leaves = 0
    while stack:
        prefix = stack.pop()
        ch = Chooser(prefix)
        out = run(ch)
        leaves += 1
        yield ch.choices, out
        if max_leaves is not None and leaves >= max_leaves and stack:
            yield "CAP", leaves
            return
        tr = ch.trace
        base = [c for _, c, _ in tr]
        for i in range(len(tr) - 1, len(prefix) - 1, -1):
            n = tr[i][0]
            for alt in range(n - 1, 0, -1):
                newp = tuple(base[:i]) + (alt,)
                if max_deviations is not None:
                    if sum(1 for c in newp if c != 0) > max_deviations:
                        continue
                stack.append(newp)


class RandomProxy:
    """Stands in for the ``random`` module functions (and for private
    ``random.Random`` instances) the library calls.  Answers come from the
    chooser that is active *at call time*, so an object that captured the proxy
    while one exploration was running keeps working under the next one; with
    no exploration active the real generator answers."""

    def __init__(self, chooser=None):
        self._fixed = chooser

    @property
    def ch(self):
        if self._fixed is not None:
            return self._fixed
        return _ACTIVE[-1] if _ACTIVE else None

    def _real(self):
        return _REAL

    def randint(self, a, b):
        if self.ch is None:
            return _REAL.randint(a, b)
        return a + self.ch.choose(b - a + 1, f"randint({a},{b})")

    def randrange(self, start, stop=None, step=1):
        if self.ch is None:
            return _REAL.randrange(start, stop, step) if stop is not None else _REAL.randrange(start)
        if stop is None:
            start, stop = 0, start
        vals = range(start, stop, step)
        return vals[self.ch.choose(len(vals), f"randrange({start},{stop},{step})")]

    def choice(self, seq):
        if self.ch is None:
            return _REAL.choice(seq)
        seq = list(seq)
        if not seq:
            raise IndexError("Cannot choose from an empty sequence")
        return seq[self.ch.choose(len(seq), f"choice(len={len(seq)})")]

    def sample(self, population, k):
        if self.ch is None:
            return _REAL.sample(population, k)
        pool = list(population)
        out = []
        for _ in range(k):
            out.append(pool.pop(self.ch.choose(len(pool), f"sample(len={len(pool)})")))
        return out

    def shuffle(self, x):
        if self.ch is None:
            return _REAL.shuffle(x)
        pool = list(x)
        out = []
        while pool:
            out.append(pool.pop(self.ch.choose(len(pool), "shuffle")))
        x[:] = out

    def random(self):
        if self.ch is None:
            return _REAL.random()
        return (0.0, 0.5, 0.999)[self.ch.choose(3, "random()")]

    def uniform(self, a, b):
        return a + (b - a) * self.random()

    def seed(self, *a, **k):  # seeding is irrelevant once answers are owned
        if self.ch is None:
            return _REAL.seed(*a, **k)
        return None

    def getrandbits(self, k):
        if self.ch is None:
            return _REAL.getrandbits(k)
        return self.ch.choose(2 ** min(k, 3), f"getrandbits({k})")

    def getstate(self):
        return _REAL.getstate()

    def setstate(self, state):
        return _REAL.setstate(state)


_ACTIVE = []  # stack of choosers of the running explorations
_REAL = _random_module.Random()
_SHARED_PROXY = RandomProxy()
_PATCHED = ("randint", "randrange", "choice", "sample", "shuffle", "random", "uniform", "seed", "getrandbits")


@contextlib.contextmanager
def owned_random(chooser: Chooser):
    """Every ``random.<f>()`` call anywhere - and every draw from a private
    ``random.Random(...)`` created while a source is owned - becomes a choice
    point of ``chooser``."""
    proxy = _SHARED_PROXY
    saved = {n: getattr(_random_module, n) for n in _PATCHED}
    saved_cls = _random_module.Random
    _ACTIVE.append(chooser)
    try:
        for n in _PATCHED:
            setattr(_random_module, n, getattr(proxy, n))
        _random_module.Random = lambda *a, **k: proxy
        yield proxy
    finally:
        _ACTIVE.pop()
        for n, f in saved.items():
            setattr(_random_module, n, f)
        _random_module.Random = saved_cls
