"""Boring reference semantics of job-shop dispatching (DESIGN 2.2).

Nothing here imports job_shop_lib.  A history is a sequence of accepted
requests ``(job, machine)``; a state is *recomputed from the history each time*
(no incremental bookkeeping, no caches).  Every derived notion is a direct
transcription of the documented definition.
"""

from __future__ import annotations

import itertools
from functools import lru_cache

# filter names as used in the library's enum values
DOM = "dominated_operations"
NIM = "non_immediate_machines"
NIDLE = "non_idle_machines"
NIO = "non_immediate_operations"
FILTERS = (DOM, NIM, NIDLE, NIO)


class Ref:
    """Static view of an instance spec."""

    def __init__(self, spec):
        self.spec = spec
        self.jobs = spec
        self.J = len(spec)
        self.ops = []  # op_id -> (job, pos, machines, dur)
        self.op_id = {}  # (job, pos) -> id
        for j, job in enumerate(spec):
            for p, (ms, d) in enumerate(job):
                self.op_id[(j, p)] = len(self.ops)
                self.ops.append((j, p, tuple(ms), d))
        self.N = len(self.ops)
        self.M = 1 + max(m for (_, _, ms, _) in self.ops for m in ms)
        self.jlen = [len(job) for job in spec]
        self.flexible = any(len(ms) > 1 for (_, _, ms, _) in self.ops)
        self.positive = all(d > 0 for (_, _, _, d) in self.ops)

    # -- states ------------------------------------------------------------
    def state(self, hist) -> "RefState":
        return RefState(self, tuple(hist))

    def children(self, hist):
        """All (job, machine) requests the dispatcher must accept."""
        s = self.state(hist)
        out = []
        for j in range(self.J):
            if s.nxt[j] < self.jlen[j]:
                for m in self.jobs[j][s.nxt[j]][0]:
                    out.append((j, m))
        return out

    def all_histories(self, complete_only=True):
        """Generator of every dispatch history (tuples of (job, machine))."""

        def rec(hist):
            kids = self.children(hist)
            if not kids:
                yield tuple(hist)
                return
            if not complete_only:
                yield tuple(hist)
            for c in kids:
                hist.append(c)
                yield from rec(hist)
                hist.pop()

        yield from rec([])


class RefState:
    """State after a history, recomputed from scratch."""

    def __init__(self, ref: Ref, hist):
        self.ref = ref
        self.hist = hist
        M, J = ref.M, ref.J
        self.sched = [[] for _ in range(M)]  # machine -> [(op, start, end)]
        self.nxt = [0] * J
        self.jf = [0] * J
        self.mf = [0] * M
        self.where = {}  # op -> (machine, start, end)
        self.order = []  # op ids in dispatch order
        for j, m in hist:
            p = self.nxt[j]
            assert p < ref.jlen[j], "reference: job exhausted"
            ms, d = ref.jobs[j][p]
            assert m in ms, "reference: machine not eligible"
            op = ref.op_id[(j, p)]
            prev_end = 0
            if p > 0:
                prev_end = self.where[ref.op_id[(j, p - 1)]][2]
            mach_end = self.sched[m][-1][2] if self.sched[m] else 0
            start = max(prev_end, mach_end)
            end = start + d
            self.sched[m].append((op, start, end))
            self.where[op] = (m, start, end)
            self.order.append(op)
            self.nxt[j] += 1
        # tracking vectors *derived from the schedule content*
        for j in range(J):
            if self.nxt[j] > 0:
                self.jf[j] = self.where[ref.op_id[(j, self.nxt[j] - 1)]][2]
        for m in range(M):
            if self.sched[m]:
                self.mf[m] = self.sched[m][-1][2]

    # -- basic derived notions -----------------------------------------------
    def canon(self):
        return tuple(tuple((o, s) for (o, s, _) in ml) for ml in self.sched)

    def is_complete(self):
        return len(self.hist) == self.ref.N

    def makespan(self):
        return max([e for ml in self.sched for (_, _, e) in ml], default=0)

    def scheduled(self):
        """job-major list of scheduled op ids."""
        return [
            self.ref.op_id[(j, p)]
            for j in range(self.ref.J)
            for p in range(self.nxt[j])
        ]

    def unscheduled(self):
        return [
            self.ref.op_id[(j, p)]
            for j in range(self.ref.J)
            for p in range(self.nxt[j], self.ref.jlen[j])
        ]

    def ready(self):
        """next op of each unfinished job, in job order."""
        return [
            self.ref.op_id[(j, self.nxt[j])]
            for j in range(self.ref.J)
            if self.nxt[j] < self.ref.jlen[j]
        ]

    def start(self, op, m):
        j = self.ref.ops[op][0]
        return max(self.jf[j], self.mf[m])

    def est(self, op):
        """earliest start of a *ready* op over its machines."""
        return min(self.start(op, m) for m in self.ref.ops[op][2])

    def min_start(self, ops):
        if not ops:
            return self.makespan()
        return min(self.start(o, m) for o in ops for m in self.ref.ops[o][2])

    # -- filters -----------------------------------------------------------------
    def apply_filter(self, name, ops):
        ref = self.ref
        ops = list(ops)
        if not ops:
            return []
        t = self.min_start(ops)
        if name == NIDLE:
            busy = {
                m
                for m in range(ref.M)
                if any(e > t for (_, _, e) in self.sched[m])
            }
            return [o for o in ops if not all(m in busy for m in ref.ops[o][2])]
        if name == NIO:
            return [o for o in ops if self.est(o) == t]
        if name == NIM:
            immediate = {
                m
                for o in ops
                for m in ref.ops[o][2]
                if self.start(o, m) == t
            }
            return [o for o in ops if any(m in immediate for m in ref.ops[o][2])]
        if name == DOM:
            minend = {}
            for o in ops:
                for m in ref.ops[o][2]:
                    e = self.start(o, m) + ref.ops[o][3]
                    minend[m] = min(minend.get(m, e), e)
            return [
                o
                for o in ops
                if any(self.start(o, m) < minend[m] for m in ref.ops[o][2])
            ]
        raise KeyError(name)

    def apply_filters(self, names, ops):
        for n in names:
            ops = self.apply_filter(n, ops)
        return list(ops)

    def available(self, filters=()):
        # the checks may pin the available list to the implementation's own
        # answer where the property leaves the filter's exact choice open
        # (dominated filter + zero durations); everything derived from it is
        # still recomputed here
        ov = getattr(self, "avail_override", None)
        if ov is not None:
            return list(ov)
        return self.apply_filters(filters, self.ready())

    def now(self, filters=()):
        return self.min_start(self.available(filters))

    def ongoing(self, filters=()):
        t = self.now(filters)
        return sorted(o for o, (_, _, e) in self.where.items() if e > t)

    def completed(self, filters=()):
        t = self.now(filters)
        return sorted(o for o, (_, _, e) in self.where.items() if e <= t)

    # -- objective values -------------------------------------------------------
    def idle_time(self):
        """Sum over machines of (first start + gaps between consecutive ops)."""
        total = 0
        for ml in self.sched:
            prev = 0
            for _, s, e in ml:
                total += s - prev
                prev = e
        return total


# ---------------------------------------------------------------------------
# independent feasibility checker (works on plain snapshots)
# ---------------------------------------------------------------------------


def feasibility_errors(ref: Ref, sched_snapshot) -> list[str]:
    """sched_snapshot: per machine list of (op_id, start, machine_id)."""
    errs = []
    seen = {}
    if len(sched_snapshot) != ref.M:
        errs.append(f"schedule has {len(sched_snapshot)} machine lists, M={ref.M}")
    for m, ml in enumerate(sched_snapshot):
        prev_end = None
        prev_start = None
        for op, start, mid in ml:
            if not 0 <= op < ref.N:
                errs.append(f"foreign operation id {op}")
                continue
            j, p, ms, d = ref.ops[op]
            if op in seen:
                errs.append(f"operation {op} scheduled twice")
            seen[op] = (m, start, start + d)
            if mid != m:
                errs.append(f"op {op} in list {m} but machine_id {mid}")
            if m not in ms:
                errs.append(f"op {op} on ineligible machine {m}")
            if start < 0:
                errs.append(f"op {op} negative start {start}")
            if prev_end is not None and start < prev_end:
                errs.append(f"machine {m}: op {op} starts {start} < prev end {prev_end}")
            if prev_start is not None and start < prev_start:
                errs.append(f"machine {m}: not in time order at op {op}")
            prev_end = start + d
            prev_start = start
    for op, (m, s, e) in seen.items():
        j, p, ms, d = ref.ops[op]
        if p > 0:
            pred = ref.op_id[(j, p - 1)]
            if pred not in seen:
                errs.append(f"op {op} scheduled before its job predecessor")
            elif seen[pred][2] > s:
                errs.append(
                    f"job {j}: op {op} starts {s} before predecessor ends {seen[pred][2]}"
                )
    return errs


# ---------------------------------------------------------------------------
# optimum by exhaustive search over canonical states (memoised)
# ---------------------------------------------------------------------------


def optimum(ref: Ref, filters=()) -> int:
    """Minimum makespan over all (optionally filtered) dispatch histories.

    Pure reference computation: used as the independent OPT oracle.
    """
    best = [None]
    seen = set()

    def rec(hist):
        s = ref.state(hist)
        key = s.canon()
        if key in seen:
            return
        seen.add(key)
        if s.is_complete():
            mk = s.makespan()
            if best[0] is None or mk < best[0]:
                best[0] = mk
            return
        for o in s.available(filters):
            j, _, ms, _ = ref.ops[o]
            for m in ms:
                rec(hist + ((j, m),))

    rec(())
    return best[0]


def lower_bound(ref: Ref) -> int:
    """max(job length, machine load of forced machines) - valid lower bound."""
    lb = max(sum(d for _, d in job) for job in ref.jobs)
    load = [0] * ref.M
    for (_, _, ms, d) in ref.ops:
        if len(ms) == 1:
            load[ms[0]] += d
    return max(lb, max(load))


def nonempty_sublists(seq):
    seq = list(seq)
    for r in range(1, len(seq) + 1):
        for idx in itertools.combinations(range(len(seq)), r):
            yield [seq[i] for i in idx]


def filter_configs(max_len=2):
    """(), 4 singles, 12 ordered pairs (max_len=2); all ordered subsets if 4."""
    out = [()]
    for r in range(1, max_len + 1):
        out.extend(itertools.permutations(FILTERS, r))
    return out
