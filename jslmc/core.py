"""Runner core: results, violations, known findings, evidence, parallel map."""

from __future__ import annotations

import hashlib
import importlib
import json
import multiprocessing as mp
import os
import sys
import time
import traceback
from collections import Counter

VERIF = os.path.dirname(os.path.dirname(os.path.abspath(__file__)))
# (overridable so that runs against scratch copies do not touch the evidence)
EVIDENCE_DIR = os.environ.get("JSLMC_EVIDENCE_DIR") or os.path.join(VERIF, "evidence")
REPLAY_DIR = os.environ.get("JSLMC_REPLAY_DIR") or os.path.join(VERIF, "replays")
KNOWN = os.path.join(VERIF, "known_findings.json")

MAX_SAMPLES = 6


def jsonable(x):
    """Best-effort conversion of nested tuples / numpy / sets to JSON."""
    try:
        import numpy as np
    except Exception:  # pragma: no cover
        np = None
    if isinstance(x, dict):
        return {str(k): jsonable(v) for k, v in x.items()}
    if isinstance(x, (list, tuple)):
        return [jsonable(v) for v in x]
    if isinstance(x, (set, frozenset)):
        return sorted((jsonable(v) for v in x), key=repr)
    if np is not None:
        if isinstance(x, np.ndarray):
            return jsonable(x.tolist())
        if isinstance(x, np.generic):
            return x.item()
    if isinstance(x, float):
        if x != x:
            return "nan"
        if x in (float("inf"), float("-inf")):
            return repr(x)
        return x
    if isinstance(x, (str, int, bool)) or x is None:
        return x
    return repr(x)


class Res:
    """Accumulated outcome of one or more cases (picklable)."""

    def __init__(self):
        self.c = Counter()
        self.viol = {}  # (check, kind) -> first record
        self.vcount = Counter()
        self.samples = []
        self.notes = Counter()
        self.aux = {}  # check-specific mergeable data (sets under string keys)

    # counters -------------------------------------------------------------
    def add(self, key, n=1):
        self.c[key] += n

    def note(self, key, n=1):
        self.notes[key] += n

    def sample(self, s):
        if len(self.samples) < MAX_SAMPLES:
            self.samples.append(jsonable(s))

    def aux_add(self, key, value):
        self.aux.setdefault(key, set()).add(value)

    # violations -------------------------------------------------------------
    def violation(self, check, kind, sig=None, **details):
        sigj = jsonable(sig or {})
        k = (check, kind, json.dumps(sigj, sort_keys=True))
        self.vcount[k] += 1
        size = len(repr(details))
        if k not in self.viol or size < self.viol[k]["_size"]:
            self.viol[k] = {
                "check": check,
                "kind": kind,
                "sig": sigj,
                "details": jsonable(details),
                "_size": size,
            }

    def merge(self, other: "Res"):
        self.c.update(other.c)
        self.notes.update(other.notes)
        self.vcount.update(other.vcount)
        for k, v in other.viol.items():
            if k not in self.viol or v.get("_size", 0) < self.viol[k].get("_size", 0):
                self.viol[k] = v
        for s in other.samples:
            if len(self.samples) < MAX_SAMPLES:
                self.samples.append(s)
        for k, v in other.aux.items():
            self.aux.setdefault(k, set()).update(v)
        return self


# ---------------------------------------------------------------------------
# worker side
# ---------------------------------------------------------------------------

_MOD = None


def _init_worker(modname):
    global _MOD
    _MOD = importlib.import_module(modname)


def _run_chunk(chunk):
    total = Res()
    for case in chunk:
        total.merge(run_one(_MOD, case))
    return total


def run_one(mod, case) -> Res:
    """Run a single case; any escaping exception is an outcome, not a crash."""
    try:
        res = mod.run_case(case)
    except Exception as exc:  # library crash outside a predicted place
        res = Res()
        tb = traceback.format_exc()
        where = "harness"
        for line in tb.splitlines():
            if "job_shop_lib" in line:
                where = "library"
        res.violation(
            f"{case[0] if isinstance(case, tuple) and case and isinstance(case[0], str) else 'case'}",
            f"unexpected-exception:{type(exc).__name__}",
            sig={"raised_in": where},
            traceback=tb[-3000:],
        )
    for v in res.viol.values():
        v.setdefault("_size", 0)
        v.setdefault("case", jsonable(case))
        v["_case_raw"] = case
    return res


def chunks(iterable, size):
    buf = []
    for x in iterable:
        buf.append(x)
        if len(buf) >= size:
            yield buf
            buf = []
    if buf:
        yield buf


def parallel(modname, cases, workers=None, chunk=8):
    """Run cases on a fork pool, merge results."""
    workers = workers or int(os.environ.get("JSLMC_WORKERS", "16"))
    total = Res()
    mod = importlib.import_module(modname)
    heavy = getattr(mod, "heavy", None)
    cases = list(cases)
    if heavy is not None:
        # heavy cases first, one per task, so they do not serialise at the end
        hv = [c for c in cases if heavy(c)]
        lt = [c for c in cases if not heavy(c)]
        work = [[c] for c in hv] + list(chunks(lt, chunk))
    else:
        work = list(chunks(cases, chunk))
    if workers <= 1:
        _init_worker(modname)
        for ch in work:
            total.merge(_run_chunk(ch))
        return total
    ctx = mp.get_context("fork")
    with ctx.Pool(workers, initializer=_init_worker, initargs=(modname,)) as pool:
        for r in pool.imap_unordered(_run_chunk, work):
            total.merge(r)
    return total


# ---------------------------------------------------------------------------
# known findings
# ---------------------------------------------------------------------------


def load_known():
    try:
        with open(KNOWN) as f:
            data = json.load(f)
    except FileNotFoundError:
        return []
    return [f for f in data.get("findings", []) if f.get("status") == "open"]


def match_known(prop, rec, known):
    for f in known:
        if f.get("property") != prop:
            continue
        if f.get("check") != rec["check"]:
            continue
        if "kind" in f and f["kind"] != rec["kind"]:
            continue
        want = f.get("match", {})
        sig = rec.get("sig", {})
        if all(sig.get(k) == v for k, v in want.items()):
            return f
    return None


# ---------------------------------------------------------------------------
# finishing a run
# ---------------------------------------------------------------------------


def finish(mod, prop, tier, seed, total: Res, t0, extra_cov=None):
    """Verify violations replay, print lines, write evidence; return exit code."""
    known = load_known()
    os.makedirs(EVIDENCE_DIR, exist_ok=True)
    new_violations = 0
    known_hits = 0
    lines = []
    for (check, kind, sigk), rec in sorted(total.viol.items()):
        case_raw = rec.pop("_case_raw", None)
        rec.pop("_size", None)
        # Does it match an *open* known finding?  The signature must match for
        # this specific record; other records of the same (check, kind) that do
        # not match were kept separately by the check through distinct kinds.
        kf = match_known(prop, rec, known)
        if kf is not None:
            known_hits += 1
            line = f"KNOWN-FINDING: property={prop} {kf.get('what', check + ' ' + kind)}"
            if line not in lines:  # one line per listed finding
                lines.append(line)
            continue
        # reproducibility: re-execute the case once more from its record
        reproduced = None
        if case_raw is not None:
            try:
                again = run_one(mod, case_raw)
                reproduced = any(
                    (c, k) == (check, kind) for (c, k, _) in again.viol
                )
            except Exception:
                reproduced = False
            if not reproduced:
                # observed once on the real code but not when the case is
                # re-executed alone: the outcome depends on what ran earlier in
                # the same process (state kept by the library across calls) or
                # on unowned nondeterminism.  Reported, and flagged as such.
                print(
                    f"note: violation {check}/{kind} did not reproduce when its case was "
                    "re-executed in isolation (depends on earlier executions in the process?)",
                    file=sys.stderr,
                )
        new_violations += 1
        rec_out = dict(rec)
        rec_out.update(
            property=prop,
            tier=tier,
            seed=seed,
            count=total.vcount[(check, kind, sigk)],
            module=mod.__name__,
            reproduced_on_replay=reproduced,
        )
        rdir = os.path.join(REPLAY_DIR, prop)
        os.makedirs(rdir, exist_ok=True)
        blob = json.dumps(rec_out, indent=1, sort_keys=True, default=repr)
        h = hashlib.sha1(blob.encode()).hexdigest()[:12]
        path = os.path.join(rdir, f"{check}-{h}.json".replace("/", "_").replace(":", "_"))
        with open(path, "w") as f:
            f.write(blob)
        lines.append(f"VIOLATION property={prop} replay={path}")
        det = rec.get("details", {})
        lines.append(
            f"  check={check} kind={kind} count={total.vcount[(check, kind, sigk)]} "
            f"sig={json.dumps(rec.get('sig', {}))}"
        )
        lines.append("  " + json.dumps(det, default=repr)[:1200])

    cov = {
        "states": int(total.c.get("states", 0)),
        "transitions": int(total.c.get("transitions", 0)),
        "traces_validated_against_impl": int(total.c.get("traces", 0)),
        "evaluations": int(total.c.get("evaluations", 0)),
        "distinct_nontrivial": int(total.c.get("nontrivial", 0)),
        "rule": getattr(mod, "RULE", ""),
        "samples": total.samples or ["(no sample recorded)"],
        "exhaustive": bool(total.c.get("caps_hit", 0) == 0),
        "caps_hit": int(total.c.get("caps_hit", 0)),
        "counters": {k: int(v) for k, v in sorted(total.c.items())},
        "notes": {k: int(v) for k, v in sorted(total.notes.items())},
        "violation_counts": {
            f"{c}/{k}/{sg}": int(n)
            for (c, k, sg), n in sorted(total.vcount.items())
        },
        "known_finding_hits": known_hits,
        "bounds": getattr(mod, "BOUNDS", {}).get(tier, ""),
    }
    if extra_cov:
        cov.update(jsonable(extra_cov))
    evidence = {
        "property_id": prop,
        "tier": tier,
        "seed": int(seed),
        "level": "model_checking",
        "coverage": cov,
        "assumptions": list(getattr(mod, "ASSUMPTIONS", [])),
        "wall_s": round(time.time() - t0, 2),
        "violations": new_violations,
    }
    with open(os.path.join(EVIDENCE_DIR, f"{prop}.json"), "w") as f:
        json.dump(evidence, f, indent=1, sort_keys=True)
    for ln in lines:
        print(ln)
    print(
        f"[{prop} {tier}] states={cov['states']} transitions={cov['transitions']} "
        f"traces={cov['traces_validated_against_impl']} evaluations={cov['evaluations']} "
        f"nontrivial={cov['distinct_nontrivial']} violations={new_violations} "
        f"known={known_hits} caps_hit={cov['caps_hit']} wall={evidence['wall_s']}s"
    )
    return 1 if new_violations else 0
