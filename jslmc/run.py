"""CLI: python -m jslmc.run --property C07 --tier quick|thorough

Exit 0 = property held on everything explored; 1 = violation (a line
``VIOLATION property=<id> replay=<path>`` is printed); 2 = internal error of
the harness (never a verdict).
"""

from __future__ import annotations

import argparse
import importlib
import os
import sys
import time


def main(argv=None):
    ap = argparse.ArgumentParser()
    ap.add_argument("--property", required=True)
    ap.add_argument("--tier", default=os.environ.get("VERIF_TIER", "quick"))
    ap.add_argument("--workers", type=int, default=None)
    ap.add_argument("--only", default=None, help="run only sub-checks whose name contains this")
    args = ap.parse_args(argv)

    # Own hash randomisation and the matplotlib backend before anything loads.
    if os.environ.get("PYTHONHASHSEED") != "0" or os.environ.get("MPLBACKEND") != "Agg":
        env = dict(os.environ)
        env["PYTHONHASHSEED"] = "0"
        env["MPLBACKEND"] = "Agg"
        env.setdefault("OMP_NUM_THREADS", "1")
        env.setdefault("OPENBLAS_NUM_THREADS", "1")
        os.execve(sys.executable, [sys.executable, "-m", "jslmc.run"] + (argv or sys.argv[1:]), env)

    tier = args.tier if args.tier in ("quick", "thorough") else "quick"
    try:
        seed = int(os.environ.get("VERIF_SEED", "0"))
    except ValueError:
        seed = 0
    prop = args.property.upper()

    import warnings

    warnings.filterwarnings("ignore")

    from . import core, impl

    impl.assert_repo()
    t0 = time.time()
    modname = f"jslmc.checks.{prop.lower()}"
    mod = importlib.import_module(modname)
    cases = mod.cases(tier, seed)
    if args.only:
        cases = [c for c in cases if args.only in str(c[0])]
    total = core.parallel(modname, cases, workers=args.workers, chunk=getattr(mod, "CHUNK", 8))
    extra = None
    if hasattr(mod, "finalize"):
        extra = mod.finalize(total, tier, seed)
    code = core.finish(mod, prop, tier, seed, total, t0, extra_cov=extra)
    sys.stdout.flush()
    return code


if __name__ == "__main__":
    sys.exit(main())
